"""Regenerate DESIGN.md §10.6 (which checks catch which seeded changes) from seeded/*/meta.json."""
import json, os, re, glob
HERE = os.path.dirname(os.path.dirname(os.path.abspath(__file__)))
rows = []
for d in sorted(glob.glob(os.path.join(HERE, 'seeded', '*'))):
    m = json.load(open(os.path.join(d, 'meta.json')))
    v = m.get('verified', {})
    by = {}
    seeded_pids = {k.split('_')[1] for k in v if k.startswith('check_')
                   and '_seed' in k}
    for k, val in sorted(v.items()):
        if k.startswith('check_'):
            if k.split('_')[1] in seeded_pids and '_seed' not in k:
                continue        # superseded by the multi-seed verification
            pid = k.split('_')[1]
            tag = re.search(r'tag=(\S+)', val)
            rc = re.search(r'rc=(\d)', val)
            ent = by.setdefault(pid, {'n': 0, 'hit': 0, 'tags': []})
            ent['n'] += 1
            if rc and rc.group(1) == '1':
                ent['hit'] += 1
                if tag and tag.group(1) not in ent['tags']:
                    ent['tags'].append(tag.group(1))
    checks = []
    for pid, ent in sorted(by.items()):
        if ent['hit']:
            checks.append(f"{pid} {ent['hit']}/{ent['n']} runs ({', '.join(ent['tags'][:2])})")
        else:
            checks.append(f"{pid} **missed** ({ent['n']} runs)")
    if m.get('not_caught'):
        checks.append(m['not_caught'])
    if m.get('caught_by'):
        checks.append('owning check for detection: ' + ','.join(m['caught_by']))
    summ = re.sub(r'\s+', ' ', m.get('summary', ''))[:150]
    needs = re.sub(r'\s+', ' ', m.get('needs_to_manifest', ''))[:150]
    rows.append(f"| {os.path.basename(d)} | {m.get('property')} | {summ} | {needs} | {'; '.join(checks)} |")
table = ("### 10.6 Independent seeded changes (written by sub-agents that saw only the property text)\n\n"
         "Each was confirmed in a scratch copy: demo passes on the pristine tree, fails with the patch, the\n"
         "815 baseline tests still pass, and the owning quick check exits 1 (`tools/seeded.py verify`).\n"
         "Changes that were missed at first and what was strengthened are listed in §10.4.\n\n"
         "| id | property | change | needs | caught by (quick check: hits / runs at different VERIF_SEEDs, tags) |\n|----|----------|--------|-------|------------------------------|\n"
         + "\n".join(rows) + "\n")
p = os.path.join(HERE, 'DESIGN.md')
s = open(p).read()
marker = '### 10.6 Independent seeded changes'
if marker in s:
    s = s[:s.index(marker)]
s = s.rstrip('\n') + '\n\n' + table
open(p, 'w').write(s)
print(len(rows), 'rows')
