"""Seeded-change corpus (independent breaking changes written by sub-agents).

  seeded.py import <src-dir> <id>     copy patch.diff/demo.py/meta.json into seeded/<id>/
  seeded.py verify [id ...] [--tier quick] [--no-tests]
      for each seeded/<id>: scratch copy of /repo -> demo must PASS; apply
      patch -> demo must FAIL; repository baseline must still pass; the owning
      check (meta.property) run with VERIF_REPO=<scratch> must exit 1.
      Results are written back into meta.json["verified"].
"""
import json, os, shutil, subprocess, sys, time
HERE = os.path.dirname(os.path.dirname(os.path.abspath(__file__)))
sys.path.insert(0, os.path.join(HERE, 'tools'))
import mutants as M
SEED = os.path.join(HERE, 'seeded')
PY = '/venv/bin/python'


def run_demo(d, tree):
    env = dict(os.environ, PYTHONPATH=tree, PYTHONDONTWRITEBYTECODE='1')
    env.pop('VERIF_REPO', None)
    try:
        r = subprocess.run([PY, os.path.join(d, 'demo.py')], capture_output=True, text=True, env=env, cwd='/tmp', timeout=600)
        return r.returncode, (r.stdout + r.stderr)[-300:]
    except subprocess.TimeoutExpired:
        return 124, 'timeout'


def verify(ids, tier='quick', tests=True, runs=None, props=None, seeds=None):
    ids = ids or sorted(os.listdir(SEED))
    summary = {}
    for sid in ids:
        d = os.path.join(SEED, sid)
        if not os.path.isdir(d):
            continue
        meta = json.load(open(os.path.join(d, 'meta.json')))
        tree = M.scratch_copy()
        res = {}
        try:
            rc, out = run_demo(d, tree)
            res['demo_pristine'] = 'PASS' if rc == 0 else f'rc={rc} {out}'
            r = subprocess.run(['patch', '-p1', '-s', '-d', tree, '-i', os.path.join(d, 'patch.diff')], capture_output=True, text=True)
            if r.returncode:
                res['patch'] = 'FAILED ' + r.stdout + r.stderr
                summary[sid] = res; print(sid, res); continue
            rc, out = run_demo(d, tree)
            res['demo_patched'] = 'FAIL(as expected)' if rc == 1 else f'rc={rc} {out}'
            if tests:
                r = subprocess.run([PY, os.path.join(HERE, 'tools', 'baseline.py'), tree], capture_output=True, text=True)
                res['baseline'] = 'pass' if r.returncode == 0 else 'FAIL ' + r.stdout[-200:]
            for pid, vseed in [(p_, s_) for p_ in (props or meta.get(
                    'caught_by') or [meta['property']])
                    for s_ in (seeds or [None])]:
                env = dict(os.environ, VERIF_REPO=tree)
                if vseed is not None:
                    env['VERIF_SEED'] = str(vseed)
                cmd = [PY, '-B', os.path.join(HERE, 'dsim', 'cli.py'), 'check', pid, '--tier', tier, '--no-evidence']
                if runs:
                    cmd += ['--runs', str(runs)]
                t0 = time.time()
                r = subprocess.run(cmd, capture_output=True, text=True, env=env, cwd=HERE)
                tag = ''
                for line in r.stdout.splitlines():
                    if line.strip().startswith('tag='):
                        tag = line.strip().split()[0]; break
                key = f'check_{pid}_{tier}' + (
                    f'_seed{vseed}' if vseed is not None else '')
                res[key] = f'rc={r.returncode} {tag} {time.time()-t0:.0f}s'
                if r.returncode == 2:
                    res[key] += ' ' + r.stdout[-400:]
        finally:
            shutil.rmtree(tree, ignore_errors=True)
        meta.setdefault('verified', {}).update(res)
        json.dump(meta, open(os.path.join(d, 'meta.json'), 'w'), indent=1)
        summary[sid] = res
        print(sid, res, flush=True)
    return summary


if __name__ == '__main__':
    if sys.argv[1] == 'import':
        src, sid = sys.argv[2:4]
        dst = os.path.join(SEED, sid)
        os.makedirs(dst, exist_ok=True)
        for f in ('patch.diff', 'demo.py', 'meta.json'):
            shutil.copy2(os.path.join(src, f), os.path.join(dst, f))
        print('imported', sid)
    else:
        args = sys.argv[2:]
        tier = 'quick'; tests = True; runs = None; props = None
        if '--tier' in args:
            i = args.index('--tier'); tier = args[i + 1]; del args[i:i + 2]
        if '--runs' in args:
            i = args.index('--runs'); runs = int(args[i + 1]); del args[i:i + 2]
        if '--props' in args:
            i = args.index('--props'); props = args[i + 1].split(','); del args[i:i + 2]
        seeds = None
        if '--seeds' in args:
            i = args.index('--seeds'); seeds = [int(x) for x in args[i + 1].split(',')]; del args[i:i + 2]
        if '--no-tests' in args:
            args.remove('--no-tests'); tests = False
        verify(args, tier, tests, runs, props, seeds)
