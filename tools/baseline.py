"""Run the repository's pinned baseline (guard off) and compare with
/root/.vp/BASELINE.json stable_pass.  Exit 0 iff every stable test passes."""
import json, os, subprocess, sys, tempfile, xml.etree.ElementTree as ET
base = json.load(open('/root/.vp/BASELINE.json'))
repo = sys.argv[1] if len(sys.argv) > 1 else '/repo'
fd, path = tempfile.mkstemp(suffix='.xml'); os.close(fd)
cmd = ['/venv/bin/python', '-m', 'pytest', '-q', '-p', 'no:cacheprovider', '--timeout=900',
       '--continue-on-collection-errors', '-n', '8', f'--junitxml={path}']
env = dict(os.environ); env.pop('XLCALCULATOR_VERIF', None); env['PYTHONPATH'] = repo
subprocess.run(cmd, cwd=repo, env=env, stdout=subprocess.DEVNULL, stderr=subprocess.DEVNULL)
passed = set()
for tc in ET.parse(path).getroot().iter('testcase'):
    if not any(ch.tag in ('failure', 'error', 'skipped') for ch in tc):
        passed.add(f"{tc.get('classname')}::{tc.get('name')}")
os.unlink(path)
want = set(base['stable_pass'])
missing = sorted(want - passed)
print(f'stable_pass={len(want)} passed_now={len(passed)} missing={len(missing)}')
for m in missing[:20]: print('  MISSING', m)
sys.exit(1 if missing else 0)
