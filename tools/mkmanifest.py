"""Regenerate MANIFEST.json's checks from the table below (keeps the file valid)."""
import json, os, sys
HERE = os.path.dirname(os.path.dirname(os.path.abspath(__file__)))
CHECKS = json.load(open(os.path.join(HERE, 'tools', 'checks.json')))
m = json.load(open(os.path.join(HERE, 'MANIFEST.json')))
m['checks'] = []
for c in CHECKS:
    pid = c['id']
    m['checks'].append({
        'property_id': pid,
        'quick_cmd': f'timeout 900 /venv/bin/python -B dsim/cli.py check {pid} --tier quick',
        'thorough_cmd': f'timeout 3000 /venv/bin/python -B dsim/cli.py check {pid} --tier thorough',
        'evidence_file': f'evidence/{pid}.json',
        'replay_cmd_template': '/venv/bin/python -B dsim/cli.py replay {path}',
        'engine': 'dsim',
        'level_claimed': {'category': 'exploration', 'text': c['text'], 'design_ref': c['ref']},
        'level_note': c['note'],
        'technique': c['technique'],
    })
claimed = {c['id'] for c in CHECKS}
m['not_applicable'] = [n for n in m['not_applicable'] if n['property_id'] not in claimed]
m['engines'][0]['serves_properties'] = sorted(claimed)
json.dump(m, open(os.path.join(HERE, 'MANIFEST.json'), 'w'), indent=1)
print('checks:', sorted(claimed))
