"""setup_cmd: nothing to build (pure standard-library Python); verify the
interpreter and the repository's dependencies are importable offline."""
import sys
sys.path.insert(0, '/repo')
import xlcalculator, openpyxl, jsonpickle, pandas, numpy, mock, dateutil  # noqa
print('setup ok: python', sys.version.split()[0], 'xlcalculator at', xlcalculator.__file__)
