"""Sensitivity corpus runner.

  mutants.py make <name> <props> <relpath> <<< python-literal [(old, new), ...]
      create mutants/<name>.patch from string replacements against /repo
  mutants.py run [name ...] [--runs N] [--tests]
      apply each patch to a scratch copy of /repo (under /tmp, removed
      afterwards), run the owning checks against it with VERIF_REPO, expect
      exit 1 + VIOLATION; with --tests also run the repo's baseline there and
      require it to pass (the mutant must be invisible to the existing suite).
"""
import ast, json, os, shutil, subprocess, sys, tempfile, time
HERE = os.path.dirname(os.path.dirname(os.path.abspath(__file__)))
MUT = os.path.join(HERE, 'mutants')
INDEX = os.path.join(MUT, 'index.json')
PY = '/venv/bin/python'


def load_index():
    return json.load(open(INDEX)) if os.path.exists(INDEX) else {}


def scratch_copy():
    d = tempfile.mkdtemp(prefix='dsim-mut-', dir='/tmp')
    files = subprocess.run(['git', '-C', '/repo', 'ls-files'], capture_output=True, text=True, check=True).stdout.split()
    for f in files:
        dst = os.path.join(d, f)
        os.makedirs(os.path.dirname(dst), exist_ok=True)
        shutil.copy2(os.path.join('/repo', f), dst)
    return d


def make(name, props, relpath, pairs, why=''):
    d = scratch_copy()
    try:
        p = os.path.join(d, relpath)
        s = open(p).read()
        for old, new in pairs:
            if s.count(old) != 1:
                raise SystemExit(f'{name}: pattern occurs {s.count(old)} times: {old[:60]!r}')
            s = s.replace(old, new)
        open(p, 'w').write(s)
        diff = subprocess.run(['diff', '-u', '--label', 'a/' + relpath, '--label', 'b/' + relpath,
                               os.path.join('/repo', relpath), p], capture_output=True, text=True).stdout
        open(os.path.join(MUT, name + '.patch'), 'w').write(diff)
        idx = load_index()
        idx[name] = {'props': props, 'why': why}
        json.dump(idx, open(INDEX, 'w'), indent=1, sort_keys=True)
        print('wrote', name)
    finally:
        shutil.rmtree(d, ignore_errors=True)


def run(names, runs=None, tests=False, tier='quick', replay=True):
    idx = load_index()
    names = names or sorted(idx)
    results = {}
    for name in names:
        d = scratch_copy()
        try:
            r = subprocess.run(['patch', '-p1', '-s', '-d', d, '-i', os.path.join(MUT, name + '.patch')],
                               capture_output=True, text=True)
            if r.returncode:
                results[name] = 'PATCH-FAILED ' + r.stdout + r.stderr
                print(name, results[name]); continue
            res = {}
            if tests:
                r = subprocess.run([PY, os.path.join(HERE, 'tools', 'baseline.py'), d], capture_output=True, text=True)
                res['tests'] = 'pass' if r.returncode == 0 else 'FAIL ' + r.stdout[-300:]
            for pid in idx[name]['props']:
                env = dict(os.environ, VERIF_REPO=d)
                cmd = [PY, '-B', os.path.join(HERE, 'dsim', 'cli.py'), 'check', pid, '--tier', tier, '--no-evidence']
                if runs:
                    cmd += ['--runs', str(runs)]
                t0 = time.time()
                r = subprocess.run(cmd, capture_output=True, text=True, env=env, cwd=HERE)
                tag = ''
                for line in r.stdout.splitlines():
                    if line.strip().startswith('tag='):
                        tag = line.strip().split()[0]; break
                res[pid] = f'rc={r.returncode} {tag} {time.time()-t0:.0f}s'
                if r.returncode == 2:
                    res[pid] += ' ' + r.stdout[-300:]
                # the minimised replay file must fail the same way in a fresh
                # process on the mutated tree and pass on the clean tree
                rp = None
                for line in r.stdout.splitlines():
                    if line.startswith('VIOLATION ') and 'replay=' in line:
                        rp = line.split('replay=')[1].strip(); break
                if rp and replay:
                    rcmd = [PY, '-B', os.path.join(HERE, 'dsim', 'cli.py'), 'replay', rp]
                    r1 = subprocess.run(rcmd, capture_output=True, text=True, env=env, cwd=HERE)
                    t1 = ''
                    for line in r1.stdout.splitlines():
                        if line.strip().startswith('tag='):
                            t1 = line.strip().split()[0]; break
                    env2 = dict(os.environ); env2.pop('VERIF_REPO', None)
                    r2 = subprocess.run(rcmd, capture_output=True, text=True, env=env2, cwd=HERE)
                    ok = r1.returncode == 1 and t1 == tag and r2.returncode == 0
                    res[pid] += f' replay:{"ok" if ok else f"BAD(mut rc={r1.returncode} {t1}; clean rc={r2.returncode})"}'
            results[name] = res
            print(name, res, flush=True)
        finally:
            shutil.rmtree(d, ignore_errors=True)
    missed = [n for n, r in results.items() if isinstance(r, dict) and not all(
        v.startswith('rc=1') for k, v in r.items() if k != 'tests')]
    print('MISSED:', missed)
    return 1 if missed else 0


if __name__ == '__main__':
    if sys.argv[1] == 'make':
        name, props, relpath = sys.argv[2:5]
        why = sys.argv[5] if len(sys.argv) > 5 else ''
        make(name, props.split(','), relpath, ast.literal_eval(sys.stdin.read()), why)
    else:
        args = sys.argv[2:]
        runs = None; tests = False; tier = 'quick'
        if '--runs' in args:
            i = args.index('--runs'); runs = int(args[i + 1]); del args[i:i + 2]
        if '--tier' in args:
            i = args.index('--tier'); tier = args[i + 1]; del args[i:i + 2]
        if '--tests' in args:
            args.remove('--tests'); tests = True
        sys.exit(run(args, runs, tests, tier))
