"""Delta debugging over explicit cases.

A candidate is accepted only if the *same oracle tag of the same property*
fails again.  Passes: ddmin over ops -> drop faults -> property-specific
reducers (drop cells, simplify constants, lower fault offsets), to a fixpoint
or until the candidate budget is used up.
"""
import copy
import time

from . import kernel


def minimise(mod, case, tag, budget=400, wall=45.0):
    t0 = time.time()
    tried = [0]
    if getattr(mod, 'USES_CHILD', False):
        from .restorer import Child
        Child.get()

    def fails(c):
        if tried[0] >= budget or time.time() - t0 > wall:
            return None
        tried[0] += 1
        status, res = kernel.run_case_process(mod, c)
        if status != 'ok':
            return None
        v = res['viol']
        if v is not None and v['tag'] == tag:
            return v
        return None

    best = copy.deepcopy(case)
    bestv = fails(best)
    if bestv is None:
        # not reproducible with the same tag (should not happen: runs are
        # deterministic) - report the original untouched
        status, res = kernel.run_isolated(mod, best, timeout=300)
        v = res['viol'] if status == 'ok' else None
        return best, v or {'tag': tag, 'detail': 'not reproduced in a '
                           'pristine process'}, tried[0]

    def exhausted():
        return tried[0] >= budget or time.time() - t0 > wall

    progress = True
    while progress and not exhausted():
        progress = False
        # ---- pass 1: ddmin over ops -----------------------------------
        ops = best.get('ops', [])
        n = 2
        while len(ops) >= 2 and not exhausted():
            size = max(1, len(ops) // n)
            removed = False
            for start in range(0, len(ops), size):
                cand_ops = ops[:start] + ops[start + size:]
                if not cand_ops:
                    continue
                cand = copy.deepcopy(best)
                cand['ops'] = copy.deepcopy(cand_ops)
                v = fails(cand)
                if v is not None:
                    best, bestv, ops = cand, v, cand['ops']
                    n = max(n - 1, 2)
                    removed = progress = True
                    break
                if exhausted():
                    break
            if not removed:
                if size == 1:
                    break
                n = min(len(ops), n * 2)
        # ---- pass 2: drop faults ---------------------------------------
        for i, op in enumerate(best.get('ops', [])):
            if exhausted():
                break
            if isinstance(op, dict) and op.get('fault') is not None:
                cand = copy.deepcopy(best)
                cand['ops'][i].pop('fault')
                v = fails(cand)
                if v is not None:
                    best, bestv, progress = cand, v, True
        # ---- pass 3: property-specific reducers -------------------------
        reducers = getattr(mod, 'reducers', None)
        if reducers is not None:
            again = True
            while again and not exhausted():
                again = False
                for cand in reducers(copy.deepcopy(best)):
                    if exhausted():
                        break
                    v = fails(cand)
                    if v is not None:
                        best, bestv = cand, v
                        again = progress = True
                        break
    return best, bestv, tried[0]
