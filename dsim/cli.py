"""dsim command line.

  cli.py check <ID> [--tier quick|thorough] [--runs N] [--wall S] [--workers N]
  cli.py replay <file>
  cli.py selftest determinism [--props C04,C05] [--seeds N]
  cli.py case <ID> <run-seed>         print the generated case

Exit codes: 0 property held on everything explored; 1 violation (a line
`VIOLATION property=<id> replay=<path>` is printed); 2 harness error.
VERIF_SEED (default 0) and VERIF_TIER are honoured.
"""
import argparse
import json
import os
import sys

HERE = os.path.dirname(os.path.abspath(__file__))


def _reexec_pinned():
    """Hash order is an ambient input: pin it (sets are pickled in iteration
    order by the library)."""
    if os.environ.get('PYTHONHASHSEED') != os.environ.get(
            'VERIF_HASHSEED', '0'):
        env = dict(os.environ)
        env['PYTHONHASHSEED'] = os.environ.get('VERIF_HASHSEED', '0')
        env['PYTHONDONTWRITEBYTECODE'] = '1'
        opt = ['-O'] if sys.flags.optimize else []
        os.execve(sys.executable, [sys.executable, '-B'] + opt + sys.argv,
                  env)


def main(argv=None):
    _reexec_pinned()
    sys.path.insert(0, os.path.dirname(HERE))
    import warnings
    warnings.filterwarnings('ignore')
    import logging
    logging.disable(logging.CRITICAL)
    from dsim import kernel

    ap = argparse.ArgumentParser(prog='dsim')
    sub = ap.add_subparsers(dest='cmd', required=True)
    c = sub.add_parser('check')
    c.add_argument('prop')
    c.add_argument('--tier', default=os.environ.get('VERIF_TIER', 'quick'))
    c.add_argument('--runs', type=int)
    c.add_argument('--wall', type=float)
    c.add_argument('--workers', type=int)
    c.add_argument('--seed', type=int,
                   default=int(os.environ.get('VERIF_SEED', '0') or 0))
    c.add_argument('--no-evidence', action='store_true')
    r = sub.add_parser('replay')
    r.add_argument('file')
    s = sub.add_parser('selftest')
    s.add_argument('what', choices=['determinism'])
    s.add_argument('--props', default=','.join(kernel.PROPS))
    s.add_argument('--seeds', type=int, default=300)
    s.add_argument('--tier', default='quick')
    sd = sub.add_parser('selftest-dump')
    sd.add_argument('prop')
    sd.add_argument('n', type=int)
    sd.add_argument('--tier', default='quick')
    g = sub.add_parser('case')
    g.add_argument('prop')
    g.add_argument('seed', type=int)
    g.add_argument('--tier', default='quick')
    g.add_argument('--run', action='store_true')
    g.add_argument('--index', type=int, default=1)
    a = ap.parse_args(argv)

    try:
        if a.cmd == 'check':
            tier = a.tier if a.tier in ('quick', 'thorough') else 'quick'
            return kernel.check(a.prop.upper(), tier, a.seed,
                                workers=a.workers, runs=a.runs, wall=a.wall,
                                write_evidence=not a.no_evidence)
        if a.cmd == 'replay':
            with open(a.file) as fp:
                want_opt = json.load(fp).get('python_optimize', 0)
            if want_opt and not sys.flags.optimize:
                # the violation was found in an interpreter started with -O
                os.execve(sys.executable,
                          [sys.executable, '-O', '-B'] + sys.argv,
                          dict(os.environ))
            return kernel.replay(a.file)
        if a.cmd == 'selftest':
            from dsim import selftest
            return selftest.determinism(
                a.props.split(','), a.seeds, a.tier)
        if a.cmd == 'selftest-dump':
            from dsim import selftest
            return selftest.dump(a.prop.upper(), a.n, a.tier)
        if a.cmd == 'case':
            mod = kernel.prop_module(a.prop.upper())
            case = mod.gen_case(a.seed, a.tier, a.index) if getattr(
                mod, 'USES_INDEX', False) else mod.gen_case(a.seed, a.tier)
            print(json.dumps(case, indent=1, default=str))
            if a.run:
                res = kernel.execute(mod, case)
                print(json.dumps(res, indent=1, default=str))
            return 0
    except KeyboardInterrupt:
        print('HARNESS-ERROR interrupted')
        return 2
    except Exception as e:      # never exit 0, never print VIOLATION
        import traceback
        traceback.print_exc()
        print(f'HARNESS-ERROR {type(e).__name__}: {e}')
        return 2


if __name__ == '__main__':
    sys.exit(main())
