"""Simulation kernel: seeds, worker pool, run loop, shrinking, replay files,
known findings, evidence.

One integer decides everything: VERIF_SEED -> per-run seed
blake2b(property, base, i) -> one random.Random that *materialises* the run as
an explicit JSON case (world + ops + faults + knobs).  Execution interprets
the case, never the PRNG, so the case is the replay file and the shrinker can
edit it freely.
"""
import faulthandler
import gc
import hashlib
import importlib
import json
import multiprocessing
import os
import resource
import sys
import time
import traceback
from concurrent.futures import ProcessPoolExecutor, as_completed

from . import VERIF, REPO

PROPS = ('C04', 'C05', 'C06', 'C11', 'C12', 'C13')
KNOWN_FILE = os.path.join(VERIF, 'known_findings.json')
EVIDENCE_DIR = os.path.join(VERIF, 'evidence')
REPLAY_DIR = os.path.join(VERIF, 'replays')
MEM_LIMIT = 4 << 30


def prop_module(pid):
    return importlib.import_module(f'dsim.props.{pid.lower()}')


def run_seed(pid, base, i):
    h = hashlib.blake2b(f'{pid}/{base}/{i}'.encode(), digest_size=8)
    return int.from_bytes(h.digest(), 'big') >> 1


def digest_of(obj):
    return hashlib.blake2b(
        json.dumps(obj, sort_keys=True, default=str).encode(),
        digest_size=12).hexdigest()


# --------------------------------------------------------------------------
# one run
# --------------------------------------------------------------------------

def hygiene():
    """Make a worker's behaviour independent of its past."""
    from . import seams
    seams.uninstall_fs()
    sys.settrace(None)
    sys.setrecursionlimit(1000)
    try:
        from xlcalculator import evaluator, ast_nodes
        cc = getattr(evaluator.EvaluatorContext.eval_cell, 'cache_clear', None)
        if cc is not None:
            cc()
        ast_nodes.MAX_EMPTY = 100
        from xlcalculator.xlfunctions import xl
        for name in ('SPY', 'FLAKY', 'BOOM', 'WHO', 'PAUSE') + tuple(
                k for k in list(xl.FUNCTIONS) if k.startswith('FAIL_')):
            xl.FUNCTIONS.pop(name, None)
    except Exception:
        pass
    gc.collect()


def execute(mod, case):
    """Execute one case; returns a picklable result dict.

    {'viol': None | {'tag','detail'}, 'log': [...], 'digest': str,
     'stats': {counter: n}, 'cover': [str], 'sig': str | None}
    """
    hygiene()
    try:
        res = mod.run_case(case)
    finally:
        hygiene()
    res.setdefault('viol', None)
    res.setdefault('log', [])
    res.setdefault('stats', {})
    res.setdefault('cover', [])
    res.setdefault('sig', None)
    res['digest'] = digest_of(res['log'])
    return res


def _die_with_parent():
    """A case process must not outlive the worker that forked it (a case
    stuck in C code would otherwise keep burning CPU as an orphan)."""
    try:
        import ctypes
        import signal
        ctypes.CDLL(None).prctl(1, signal.SIGKILL)      # PR_SET_PDEATHSIG
    except Exception:
        pass


def run_isolated(mod, case, timeout=900):
    """Execute one case in a fork of this (pristine) process and return its
    result.  The calling process never runs library code itself, so every
    case starts from the same interpreter state: whatever the library keeps
    at module level cannot leak from one case into the next, and a case
    replays identically wherever it runs."""
    import pickle
    import select
    import signal
    r, w = os.pipe()
    pid = os.fork()
    if pid == 0:
        try:
            os.close(r)
            _die_with_parent()
            try:
                payload = pickle.dumps(('ok', execute(mod, case)))
            except MemoryError:
                payload = pickle.dumps(('err', 'MemoryError in case process'))
            except BaseException:       # noqa - incl. escaped SimInterrupt
                payload = pickle.dumps(
                    ('err', traceback.format_exc()[-2000:]))
            view = memoryview(payload)
            while view:
                n = os.write(w, view[:65536])
                view = view[n:]
        finally:
            os._exit(0)
    os.close(w)
    chunks = []
    deadline = time.time() + timeout
    try:
        while True:
            left = deadline - time.time()
            if left <= 0:
                os.kill(pid, signal.SIGKILL)
                return 'err', f'case process exceeded {timeout}s'
            ready, _, _ = select.select([r], [], [], min(left, 5.0))
            if ready:
                b = os.read(r, 1 << 20)
                if not b:
                    break
                chunks.append(b)
    finally:
        os.close(r)
        try:
            os.waitpid(pid, 0)
        except ChildProcessError:
            pass
    if not chunks:
        return 'err', 'case process died without a result'
    return pickle.loads(b''.join(chunks))


def run_case_process(mod, case):
    """run_isolated with the property's own notion of a hang: where the
    property promises prompt termination (C06) a case process that exceeds
    the wall bound is a violation, not a harness error."""
    timeout = getattr(mod, 'CASE_TIMEOUT', 900)
    status, res = run_isolated(mod, case, timeout=timeout)
    tag = getattr(mod, 'TIMEOUT_IS_VIOLATION', None)
    if status == 'err' and tag and 'exceeded' in str(res):
        res = {'viol': {'tag': tag, 'detail': {
            'why': f'the case did not finish within {timeout}s of wall time '
                   '(typical: milliseconds)'}},
               'log': [['timeout', timeout]], 'stats': {}, 'cover': [],
               'sig': None, 'digest': 'timeout'}
        return 'ok', res
    return status, res


# --------------------------------------------------------------------------
# worker side
# --------------------------------------------------------------------------

_STOP = None


def _worker_init(stop=None):
    global _STOP
    _STOP = stop
    try:
        resource.setrlimit(resource.RLIMIT_AS, (MEM_LIMIT, MEM_LIMIT))
    except Exception:
        pass
    faulthandler.enable()


def _merge_stats(into, stats):
    for k, v in stats.items():
        if k.startswith('max:'):
            if v > into.get(k, 0):
                into[k] = v
        else:
            into[k] = into.get(k, 0) + v


def _chunk_task(pid, tier, seeds, want_digests):
    """Run a chunk of seeds; aggregate in the worker to keep IPC small."""
    faulthandler.dump_traceback_later(600, exit=True)
    try:
        mod = prop_module(pid)
        if getattr(mod, 'USES_CHILD', False):
            # started here so that the forked case processes inherit it
            from .restorer import Child
            Child.get()
        agg = {'runs': 0, 'stats': {}, 'sigs': set(), 'cover': set(),
               'viols': [], 'samples': [], 'digests': {}, 'errors': []}
        uses_index = getattr(mod, 'USES_INDEX', False)
        for index, seed in seeds:
            if _STOP is not None and _STOP.is_set():
                break       # the batch is being stopped (violation / cap)
            try:
                case = mod.gen_case(seed, tier, index) if uses_index \
                    else mod.gen_case(seed, tier)
                status, res = run_case_process(mod, case)
                if status != 'ok':
                    agg['errors'].append({'seed': seed, 'error': res})
                    continue
            except MemoryError:
                agg['errors'].append(
                    {'seed': seed, 'error': 'MemoryError in worker'})
                continue
            except BaseException as e:  # incl. an escaped SimInterrupt
                from .seams import SimInterrupt
                if isinstance(e, KeyboardInterrupt) and \
                        not isinstance(e, SimInterrupt):
                    raise
                agg['errors'].append(
                    {'seed': seed, 'error': traceback.format_exc()[-2000:]})
                continue
            agg['runs'] += 1
            _merge_stats(agg['stats'], res['stats'])
            if res['sig'] is not None:
                agg['sigs'].add(hashlib.blake2b(
                    res['sig'].encode(), digest_size=8).digest())
            agg['cover'].update(res['cover'])
            if want_digests:
                agg['digests'][seed] = res['digest']
            if res['viol'] is not None:
                agg['viols'].append(
                    {'seed': seed, 'case': case, 'viol': res['viol']})
            if len(agg['samples']) < 1 or (
                    len(agg['samples']) < 2 and res['stats'].get(
                        'faults_fired', 0)):
                agg['samples'].append(
                    {'case': case, 'outcome_log': res['log'][:40],
                     'faults_fired': res['stats'].get('faults_fired', 0)})
        return agg
    finally:
        faulthandler.cancel_dump_traceback_later()


def _shrink_task(pid, case, tag, budget):
    faulthandler.dump_traceback_later(900, exit=True)
    try:
        from . import shrink
        mod = prop_module(pid)
        return shrink.minimise(mod, case, tag, budget)
    finally:
        faulthandler.cancel_dump_traceback_later()


def _exec_task(pid, case):
    mod = prop_module(pid)
    if getattr(mod, 'USES_CHILD', False):
        from .restorer import Child
        Child.get()
    status, res = run_case_process(mod, case)
    if status != 'ok':
        raise RuntimeError(res)
    return res


def make_pool(workers):
    ctx = multiprocessing.get_context('fork')
    stop = ctx.Event()
    pool = ProcessPoolExecutor(
        max_workers=workers, mp_context=ctx, initializer=_worker_init,
        initargs=(stop,))
    pool.stop_event = stop
    return pool


# --------------------------------------------------------------------------
# known findings
# --------------------------------------------------------------------------

def load_known():
    if not os.path.exists(KNOWN_FILE):
        return []
    with open(KNOWN_FILE) as fp:
        return json.load(fp).get('findings', [])


def open_finding_for(pid, key, known):
    for f in known:
        if f.get('status') == 'open' and f.get('property') == pid \
                and f.get('key') == key:
            return f
    return None


# --------------------------------------------------------------------------
# check
# --------------------------------------------------------------------------

class CheckOutcome:
    def __init__(self):
        self.exit = 0
        self.lines = []


def write_replay(pid, seed, case, viol, minimised_from=None):
    os.makedirs(REPLAY_DIR, exist_ok=True)
    path = os.path.join(REPLAY_DIR, f'{pid}-{seed}.json')
    doc = {'property': pid, 'seed': seed, 'violation': viol, 'case': case}
    if sys.flags.optimize:
        # found by the slice that runs under `python -O`; replay does the same
        doc['python_optimize'] = int(sys.flags.optimize)
    if minimised_from is not None:
        doc['minimised_from'] = minimised_from
    with open(path, 'w') as fp:
        json.dump(doc, fp, indent=1, sort_keys=True, default=str)
    return path


def check(pid, tier='quick', base_seed=0, workers=None, runs=None,
          wall=None, out=sys.stdout, write_evidence=True, chunk=None,
          stop_on_violation=True):
    mod = prop_module(pid)
    budget = dict(mod.BUDGET[tier])
    if runs is not None:
        budget['runs'] = runs
    if wall is not None:
        budget['wall'] = wall
    workers = workers or min(16, os.cpu_count() or 1)
    chunk = chunk or budget.get('chunk', 25)
    with_slice = not sys.flags.optimize and \
        os.environ.get('VERIF_NO_OPT_SLICE') != '1'
    full_wall = budget['wall']
    if with_slice:
        budget['wall'] = 0.8 * full_wall    # the rest is the -O slice's
    known = load_known()
    t0 = time.time()
    n = budget['runs']
    # the slice under `python -O` explores other cases than the main run
    base = f'{base_seed}+O' if sys.flags.optimize else base_seed
    seeds = [(i, run_seed(pid, base, i)) for i in range(n)]
    chunks = [seeds[i:i + chunk] for i in range(0, n, chunk)]

    agg = {'runs': 0, 'stats': {}, 'sigs': set(), 'cover': set(),
           'samples': [], 'errors': []}
    new_viols = []
    known_hits = {}
    harness_error = None
    timed_out = False

    pool = make_pool(workers)
    try:
        pending = {}
        it = iter(chunks)
        # keep a bounded number of chunks in flight so that a stop is prompt
        for _ in range(workers * 2):
            c = next(it, None)
            if c is None:
                break
            pending[pool.submit(_chunk_task, pid, tier, c, False)] = c
        while pending:
            done = next(as_completed(list(pending)))
            pending.pop(done)
            try:
                part = done.result()
            except BaseException as e:  # worker died (OOM kill, segfault)
                if isinstance(e, KeyboardInterrupt):
                    raise
                harness_error = f'worker failed: {type(e).__name__}: {e}'
                break
            agg['runs'] += part['runs']
            _merge_stats(agg['stats'], part['stats'])
            agg['sigs'] |= part['sigs']
            agg['cover'] |= part['cover']
            agg['errors'].extend(part['errors'])
            for s in part['samples']:
                if len(agg['samples']) < 3 and (
                        s['faults_fired'] or len(agg['samples']) < 2):
                    agg['samples'].append(s)
            for v in part['viols']:
                key = mod.finding_key(v['case'], v['viol'])
                f = open_finding_for(pid, key, known)
                if f is not None:
                    ent = known_hits.setdefault(key, {'n': 0, 'finding': f})
                    ent['n'] += 1
                else:
                    new_viols.append(v)
            if new_viols and stop_on_violation:
                break
            if agg['errors']:
                harness_error = 'exception in harness: ' + \
                    agg['errors'][0]['error']
                break
            if time.time() - t0 > budget['wall']:
                timed_out = True
                break
            c = next(it, None)
            if c is not None:
                pending[pool.submit(_chunk_task, pid, tier, c, False)] = c
        for fut in pending:
            fut.cancel()
        if pending:
            pool.stop_event.set()       # running chunks return early
            from concurrent.futures import wait as _wait
            _wait(list(pending), timeout=120)
            pool.stop_event.clear()

        rc = 0
        replay_paths = []
        if harness_error is None and new_viols:
            rc = 1
            # minimise the first violation (and at most two further ones with
            # a different tag) in a protected worker
            seen_tags = set()
            for v in new_viols:
                tag = v['viol']['tag']
                if tag in seen_tags or len(seen_tags) >= 3:
                    continue
                seen_tags.add(tag)
                try:
                    small, sviol, tried = pool.submit(
                        _shrink_task, pid, v['case'], tag,
                        budget.get('shrink', 400)).result(timeout=1200)
                except Exception as e:
                    small, sviol, tried = v['case'], v['viol'], -1
                    print(f'NOTE shrink failed: {type(e).__name__}: {e}',
                          file=out)
                path = write_replay(pid, v['seed'], small, sviol,
                                    minimised_from={
                                        'ops': len(v['case'].get('ops', [])),
                                        'candidates_tried': tried})
                replay_paths.append(path)
                print(f'VIOLATION property={pid} replay={path}', file=out)
                print(f'  tag={sviol["tag"]} seed={v["seed"]} '
                      f'detail={json.dumps(sviol.get("detail"), default=str)[:600]}',
                      file=out)
    finally:
        # wait for the (short) chunks still running so that the interpreter
        # does not tear the pool down underneath its management thread
        pool.shutdown(wait=True, cancel_futures=True)

    slice_viols = 0
    if rc == 0 and harness_error is None and with_slice:
        # interpreter configuration is part of the environment: a slice of
        # the budget runs in an interpreter started with -O (assert
        # statements compiled away)
        src, sout, sruns = optimized_slice(
            pid, tier, base_seed, max(chunk, n // 8),
            max(30.0, 0.2 * full_wall), workers)
        agg['stats']['optimized_interpreter_runs'] = sruns
        if src == 1:
            rc = 1
            for line in sout.splitlines():
                if line.startswith(('VIOLATION', '  tag=')):
                    print(line, file=out)
                    slice_viols += line.startswith('VIOLATION')
        elif src != 0:
            harness_error = 'optimized slice: ' + (
                sout.strip().splitlines() or ['no output'])[-1][:300]

    for key, ent in sorted(known_hits.items()):
        print(f'KNOWN-FINDING: property={pid} {ent["finding"]["what"]} '
              f'[key={key}, hit {ent["n"]} times]', file=out)

    wall_s = time.time() - t0
    if harness_error is not None:
        print(f'HARNESS-ERROR property={pid} {harness_error}', file=out)
        rc = 2

    if write_evidence and harness_error is None:
        ev = build_evidence(mod, pid, tier, base_seed, agg, wall_s,
                            len(new_viols) + slice_viols, known_hits,
                            timed_out, workers)
        os.makedirs(EVIDENCE_DIR, exist_ok=True)
        with open(os.path.join(EVIDENCE_DIR, f'{pid}.json'), 'w') as fp:
            json.dump(ev, fp, indent=1, sort_keys=True, default=str)
    rate = agg['runs'] / wall_s * 3600 if wall_s > 0 else 0
    print(f'{pid} {tier}: runs={agg["runs"]} distinct={len(agg["sigs"])} '
          f'violations={len(new_viols) + slice_viols} known={sum(e["n"] for e in known_hits.values())} '
          f'wall={wall_s:.1f}s ({rate:,.0f} runs/h){" [wall cap]" if timed_out else ""}',
          file=out)
    return rc


def optimized_slice(pid, tier, base_seed, runs, wall, workers):
    """Run part of the budget in `python -O`; returns (rc, output, runs)."""
    import re
    import subprocess
    cli = os.path.join(os.path.dirname(os.path.abspath(__file__)), 'cli.py')
    cmd = [sys.executable, '-O', '-B', cli, 'check', pid, '--tier', tier,
           '--runs', str(runs), '--wall', str(wall), '--workers',
           str(workers), '--seed', str(base_seed), '--no-evidence']
    try:
        r = subprocess.run(cmd, capture_output=True, text=True,
                           timeout=wall + 1500)
    except subprocess.TimeoutExpired:
        return 2, 'optimized slice timed out', 0
    m = re.search(r'runs=(\d+)', r.stdout)
    return r.returncode, r.stdout + r.stderr[-500:], \
        int(m.group(1)) if m else 0


def build_evidence(mod, pid, tier, base_seed, agg, wall_s, nviol, known_hits,
                   timed_out, workers):
    stats = dict(sorted(agg['stats'].items()))
    faults = {k[len('fault:'):]: v for k, v in stats.items()
              if k.startswith('fault:')}
    probes = {k[len('probe:'):]: v for k, v in stats.items()
              if k.startswith('probe:')}
    other = {k: v for k, v in stats.items()
             if not k.startswith(('fault:', 'probe:', 'max:'))}
    cov = {
        'evaluations': agg['runs'],
        'distinct_nontrivial': len(agg['sigs']),
        'rule': mod.RULE,
        'samples': agg['samples'][:3],
        'runs_per_hour': round(agg['runs'] / wall_s * 3600) if wall_s else 0,
        'seeds_per_hour': round(agg['runs'] / wall_s * 3600) if wall_s else 0,
        'workers': workers,
        'simulated_steps': stats.get('sim_steps', 0),
        'simulated_clock_seconds': stats.get('sim_clock_seconds', 0),
        'simulated_ops': stats.get('ops', 0),
        'faults_fired_by_kind': faults,
        'probes_hit': probes,
        'counters': other,
        'state_coverage_tuples': len(agg['cover']),
        'stopped_at_wall_cap': timed_out,
        'real_components': [
            'xlcalculator (all of it)', 'openpyxl', 'zipfile', 'gzip',
            'jsonpickle', 'pandas', 'io.BufferedReader/BufferedWriter'],
        'simulated_components': [
            'raw file layer (SimFS/SimRaw)', 'clock (SimClock)',
            'uuid4 (SimUUID)', 'process restart (fresh interpreter child)',
            'cancellation (Stepper/SimInterrupt)',
            'user functions SPY/FLAKY/BOOM'],
        'known_findings_hit': {k: e['n'] for k, e in known_hits.items()},
    }
    extra = getattr(mod, 'evidence_extra', None)
    if extra is not None:
        cov.update(extra(agg))
    return {
        'property_id': pid,
        'tier': tier,
        'seed': base_seed,
        'level': 'exploration',
        'coverage': cov,
        'assumptions': list(getattr(mod, 'ASSUMPTIONS', [])),
        'wall_s': round(wall_s, 2),
        'violations': nviol,
        'repo': REPO,
    }


# --------------------------------------------------------------------------
# replay
# --------------------------------------------------------------------------

def replay(path, out=sys.stdout):
    with open(path) as fp:
        doc = json.load(fp)
    pid = doc['property']
    mod = prop_module(pid)
    pool = make_pool(1)
    try:
        res = pool.submit(_exec_task, pid, doc['case']).result(timeout=1200)
    finally:
        pool.shutdown(wait=False, cancel_futures=True)
    if res['viol'] is not None:
        print(f'VIOLATION property={pid} replay={path}', file=out)
        print(f'  tag={res["viol"]["tag"]} digest={res["digest"]} '
              f'detail={json.dumps(res["viol"].get("detail"), default=str)[:600]}',
              file=out)
        return 1
    print(f'replay of {path}: property held (digest={res["digest"]})',
          file=out)
    return 0
