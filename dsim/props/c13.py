"""C13 - an extracted sub-model computes the same values as the full model.

Two-actor history simulation: original M and X = extract(M, focus), taken at
a seeded point of M's history (never evaluated / partly evaluated / after sets
/ after a persist-restore generation).  Afterwards the same input changes are
applied to both in scheduler-chosen interleavings; at every sync point each
focus element must evaluate equally in X and M.  Faults: F1 interrupt inside
extract and inside evaluations, F2 transient user functions, F10 stale caches.
"""
import copy
import json
import random

from .. import worlds
from ..canon import outcome_of, dump_model, diff_dumps
from ..seams import (Stepper, Ambient, UserFuncs, SimFS, install_fs,
                     uninstall_fs)
from . import c04

ID = 'C13'
BUDGET = {
    'quick': {'runs': 3000, 'wall': 400, 'chunk': 30, 'shrink': 300},
    'thorough': {'runs': 150000, 'wall': 2700, 'chunk': 150, 'shrink': 500},
}
RULE = ('each run = one seeded acyclic model (dependency depth 0-5 through '
        'references, ranges and defined names, 1-3 sheets), a seeded '
        'non-empty focus subset of cells and names, a seeded prefix history '
        'on the original (evaluate / set / persist-restore), the extraction '
        '(optionally interrupted), and a seeded interleaving of the same '
        'input changes applied to both models with comparisons at sync '
        'points; non-trivial = some focus element depends on a formula cell, '
        'a range or a name; distinct = different (focus roles, prefix ops, '
        'interleaving, faults fired) signature')
ASSUMPTIONS = [
    'closure oracle uses the generator\'s abstract dependency graph, not XLFormula.terms',
    'object aliasing between original and extract that never shows at a sync point is not judged',
    'a focused name bound to a range cannot be evaluated by either model (ValueError in both); its member cells are compared instead',
    'exceptions compared by class',
]
SAFETY_STEPS = 3_000_000
COPY_PY = (copy.__file__,)    # extraction deep-copies: interrupts land there too


def closure_of_focus(world, focus):
    names, rnames = world['names'], world.get('range_names', {})
    seen = set()
    stack = []
    for f in focus:
        if f in names:
            stack.append(names[f])
        elif f in rnames:
            stack.extend(range_members(rnames[f]))
        else:
            stack.append(f)
    while stack:
        x = stack.pop()
        if x in seen:
            continue
        seen.add(x)
        stack.extend(world['deps'].get(x, ()))
    return seen


def range_members(rng_addr):
    return [c for row in worlds.range_members(rng_addr) for c in row]


# --------------------------------------------------------------------------
# generation
# --------------------------------------------------------------------------

def add_side_effect_site(rng, world):
    """A formula whose result is an array right above a cell that is stored
    nowhere, and a formula reading that empty cell: whatever evaluating the
    first one does to its surroundings in the original, the extract of the
    second one knows nothing about it."""
    cells = world['cells']
    pairs = []
    for a in world['order']:
        sheet, loc = a.split('!')
        if not sheet.isalnum():
            continue
        i = 0
        while i < len(loc) and loc[i].isalpha():
            i += 1
        below = f'{sheet}!{loc[:i]}{int(loc[i:]) + 1}'
        if below in cells and 0 in (world['level'][a],
                                    world['level'][below]):
            pairs.append((a, below))
    if not pairs:
        return None
    top, below = rng.choice(pairs)
    sheet = top.split('!')[0]
    arr, hole, reader = f'{sheet}!Z7', f'{sheet}!Z8', f'{sheet}!Y7'
    if any(x in cells for x in (arr, hole, reader)):
        return None
    t, b = top.split('!')[1], below.split('!')[1]
    cells[arr] = f'={t}:{b}'
    world['deps'][arr] = [top, below]
    world['level'][arr] = 1 + max(world['level'][top], world['level'][below])
    world['order'].append(arr)
    world.setdefault('ranges_used', {})[arr] = [f'{sheet}!{t}:{b}']
    cells[reader] = rng.choice(['=Z8&"|"', '=IF(ISBLANK(Z8),"none",Z8)',
                                '=Z8'])
    world['deps'][reader] = [hole]
    world['level'][reader] = 1
    world['order'].append(reader)
    return {'reader': reader,
            'member': below if world['level'][below] == 0 else top}


def gen_case(seed, tier='quick'):
    rng = random.Random(seed)
    faulty = rng.random() < 0.4
    if rng.random() < 0.15:
        # the original comes from loading a generated .xlsx workbook
        from .. import xlsx
        world = worlds.world_from_workbook(
            xlsx.gen_workbook(rng), {'seed': rng.randrange(1 << 30)})
    else:
        world = worlds.gen_world(rng, range_names=True,
                                 userfuncs=faulty and rng.random() < 0.5)
        if rng.random() < 0.25:
            worlds.add_env_cells(rng, world)
    side = None
    if not world.get('xlsx') and rng.random() < 0.08:
        side = add_side_effect_site(rng, world)
    order = world['order']
    inputs = [a for a in order if world['level'][a] == 0]
    formulas = [a for a in order if world['level'][a] > 0]
    names_of = {}
    for n, a in world['names'].items():
        names_of.setdefault(a, []).append(n)
    pool = list(order) + list(world['names']) + list(world['range_names'])
    k = rng.choice([1, 1, 2, 3, len(pool)])
    deepest = sorted(formulas, key=lambda a: -world['level'][a])[:2]
    focus = []
    if deepest and rng.random() < 0.6:
        focus.append(rng.choice(deepest))
    while len(focus) < min(k, len(pool)):
        f = rng.choice(pool)
        if f not in focus:
            focus.append(f)
    ops = []
    if side is not None:
        # the original is recalculated completely (also cells the focus
        # does not need) before and after the extraction
        if side['reader'] not in focus:
            focus.append(side['reader'])
        ops.append({'op': 'eval_all', 'who': 'M'})
    # prefix on the original
    for _ in range(rng.choice([0, 0, 1, 2, 4])):
        r = rng.random()
        if r < 0.55:
            ops.append({'op': 'eval', 'who': 'M',
                        'target': rng.choice(formulas or order)})
        elif r < 0.8 and inputs:
            ops.append({'op': 'set', 'who': 'M', 'target': rng.choice(inputs),
                        'value': worlds.enc(c04.new_value(rng))})
        elif r < 0.86:
            ops.append({'op': 'eval_all', 'who': 'M'})
        else:
            rt = {'op': 'roundtrip', 'path': rng.choice(
                ['/simfs/m.json', '/simfs/m.gz'])}
            if rng.random() < 0.5:
                rt['fault'] = rng.choice([
                    {'kind': 'enospc', 'after_bytes': rng.choice(
                        [0, 10, 300, 2000])},
                    {'kind': 'eio', 'at': 1},
                    {'kind': 'interrupt', 'step': rng.randint(1, 500)}])
            ops.append(rt)
    ex = {'op': 'extract'}
    if faulty and rng.random() < 0.5:
        ex['fault'] = {'kind': 'interrupt',
                       'frac': round(rng.uniform(0.02, 1.1), 3)}
    ops.append(ex)
    ops.append({'op': 'check'})
    # interleaved tail
    n_sets = rng.choice([0, 1, 1, 2, 3, 5])
    # inputs below the focus, incl. referenced cells that are stored nowhere
    # yet (setting one creates it)
    closure_inputs = [a for a in sorted(closure_of_focus(world, focus))
                      if world['level'].get(a, 0) == 0]
    tail = []
    for sid in range(n_sets):
        cands = closure_inputs if closure_inputs and rng.random() < 0.8 \
            else inputs
        if not cands:
            break
        a = rng.choice(cands)
        t = rng.choice(names_of[a]) if a in names_of and \
            rng.random() < 0.3 else a
        v = worlds.enc(c04.new_value(rng))
        if t != a and t not in focus:
            t = a       # a name is only known to X if it was focused
        tail.append(('set', sid, t, v))
    seq = []
    for kind, sid, t, v in tail:
        first, second = ('M', 'X') if rng.random() < 0.5 else ('X', 'M')
        seq.append({'op': 'set', 'who': first, 'id': sid, 'target': t,
                    'value': v})
        for _ in range(rng.choice([0, 0, 1])):
            seq.append({'op': 'eval', 'who': rng.choice(['M', 'X']),
                        'target': rng.choice(
                            [f for f in focus
                             if f not in world['range_names']] or order)})
        seq.append({'op': 'set', 'who': second, 'id': sid, 'target': t,
                    'value': v})
        if rng.random() < 0.7:
            seq.append({'op': 'check'})
        if rng.random() < 0.25:
            # a fresh extraction of the changed original
            seq.append({'op': 'extract'})
            seq.append({'op': 'check'})
    ops.extend(seq)
    if side is not None:
        v = worlds.enc(rng.choice([41, 'moved', 2.5]))
        ops += [{'op': 'set', 'who': 'M', 'id': 900, 'target': side['member'],
                 'value': v},
                {'op': 'set', 'who': 'X', 'id': 900, 'target': side['member'],
                 'value': v},
                {'op': 'eval_all', 'who': 'M'}, {'op': 'check'}]
    if seq and seq[-1]['op'] != 'check':
        ops.append({'op': 'check'})
    if faulty:
        evals = [i for i, o in enumerate(ops) if o['op'] == 'eval']
        if evals and rng.random() < 0.5:
            ops[rng.choice(evals)]['fault'] = {
                'kind': 'interrupt', 'frac': round(rng.uniform(0.05, 1.1), 3)}
    knobs = {'fail_on': rng.choice([1, 2, 3]) if faulty else None,
             'fail_exc': rng.choice(['oserr', 'keyerr', 'valerr', 'notimpl']),
             'set_via_evaluator': rng.random() < 0.5,
             'persistent_evaluators': rng.random() < 0.5,
             'reused_object': rng.random() < 0.12,
             # the extract is used from another (sequentially run) thread
             'x_in_thread': rng.random() < 0.12,
             'decoy': rng.random() < 0.2}
    return {'property': ID, 'seed': seed, 'knobs': knobs, 'world': world,
            'focus': focus, 'ops': ops}


# --------------------------------------------------------------------------
# execution
# --------------------------------------------------------------------------

def run_case(case):
    fs = SimFS()
    install_fs(fs)
    try:
        with Ambient(case['seed']):
            return _run(case, fs)
    finally:
        uninstall_fs()


def _run(case, fs):
    from xlcalculator import Evaluator, Model, ModelCompiler
    world = case['world']
    focus = list(case['focus'])
    names, rnames = world['names'], world.get('range_names', {})
    log, stats, sig = [], {'ops': 0}, []
    viol = None

    def bump(k, n=1):
        stats[k] = stats.get(k, 0) + n

    def fail(tag, seq, **detail):
        detail['op'] = seq
        return {'tag': tag, 'detail': detail}

    M = worlds.world_model(world, stale=True)
    if case['knobs'].get('reused_object') and world.get('xlsx') is None:
        # the original lives in a Model object that held another workbook
        # (same names and formula texts, other bindings) before
        try:
            sib = worlds.world_model(worlds.sibling_world(world))
            sib.persist_to_json_file('/simfs/c13-sibling.json')
            M.persist_to_json_file('/simfs/c13.json')
            M2 = Model()
            M2.construct_from_json_file('/simfs/c13-sibling.json',
                                        build_code=True)
            M2.construct_from_json_file('/simfs/c13.json', build_code=True)
            M = M2
            fs.reset_op()
            bump('probe:original_in_reused_model_object')
        except Exception:
            bump('provenance_failed')
    X = None
    # cells the extract is obliged to contain (others read as blank there)
    focus_closure = closure_of_focus(world, focus)
    uf = UserFuncs(case['knobs'].get('fail_on'),
                   case['knobs'].get('fail_exc', 'oserr'))
    inputs = {'M': dict(world['cells']), 'X': None}

    keep = {}

    def evaluator(model):
        # either a new evaluator per call or one long-lived evaluator per
        # model (whatever an evaluator keeps between calls then matters)
        if not case['knobs'].get('persistent_evaluators'):
            return Evaluator(model, uf.namespace())
        if id(model) not in keep:
            keep[id(model)] = (model, Evaluator(model, uf.namespace()))
        return keep[id(model)][1]

    if case['knobs'].get('decoy') and world.get('xlsx') is None:
        worlds.run_decoy(world, UserFuncs(None).namespace())
        bump('probe:decoy_model_first')

    def ev_out(model, target, at=None):
        st = Stepper(interrupt_at=at, max_steps=SAFETY_STEPS)
        f0 = uf.fired
        ev = evaluator(model)
        if model is X and X is not None and \
                case['knobs'].get('x_in_thread'):
            from .c05 import call_in_thread
            out = call_in_thread(st, ev.evaluate, target)
            bump('probe:extract_evaluated_in_another_thread')
        else:
            with st:
                out = outcome_of(ev.evaluate, target)
        bump('sim_steps', st.steps)
        fired = None
        if st.fired == 'interrupt':
            fired = 'interrupt'
        elif uf.fired > f0:
            fired = 'flaky'
        if fired:
            bump(f'fault:{"interrupt" if fired == "interrupt" else "transient_userfunc"}')
            bump('faults_fired')
        return out, fired, st.steps

    checks = 0
    for seq, op in enumerate(case['ops']):
        if viol is not None:
            break
        bump('ops')
        kind = op['op']
        who = op.get('who', 'M')
        model = M if who == 'M' else X
        if kind in ('set', 'eval', 'eval_all') and model is None:
            log.append([seq, kind, who, 'skipped: no extract yet'])
            continue
        if kind == 'set':
            setter = model.set_cell_value
            if case['knobs'].get('set_via_evaluator') and \
                    case['knobs'].get('persistent_evaluators'):
                setter = evaluator(model).set_cell_value
                bump('probe:set_through_long_lived_evaluator')
            out = outcome_of(setter, op['target'],
                             worlds.dec(op['value']))
            a = names.get(op['target'], op['target'])
            inputs[who][a] = op['value']
            log.append([seq, 'set', who, op['target'], out[0]])
            sig.append(f's{who}')
            if out[0] != 'ok':
                viol = fail('set-raised', seq, who=who, outcome=out)
        elif kind == 'eval':
            fault = op.get('fault')
            at = None
            if fault is not None:
                twin = worlds.world_model(world, cells=inputs['M'])
                st = Stepper(max_steps=SAFETY_STEPS)
                with st:
                    outcome_of(Evaluator(
                        twin, UserFuncs(None).namespace()).evaluate,
                        names.get(op['target'], op['target']))
                at = max(1, int(st.steps * fault['frac']))
            out, fired, _ = ev_out(model, op['target'], at)
            log.append([seq, 'eval', who, op['target'], fired, out])
            sig.append(f'e{who}{fired[0] if fired else ""}')
            # independence: while one model is ahead of the other by an input
            # change, each must still compute from its *own* inputs
            in_scope = who == 'M' or names.get(
                op['target'], op['target']) in focus_closure
            if X is not None and not fired and in_scope and \
                    world.get('xlsx') is None and any(
                    inputs['M'].get(a) != inputs['X'].get(a)
                    for a in set(inputs['M']) | set(inputs['X'])):
                twin = worlds.world_model(world, cells=inputs[who])
                tev = Evaluator(twin, UserFuncs(None).namespace())
                want = outcome_of(tev.evaluate,
                                  names.get(op['target'], op['target']))
                bump('probe:eval_while_out_of_sync')
                if out != want:
                    viol = fail('models-not-independent', seq, who=who,
                                target=op['target'], got=out,
                                from_own_inputs=want)
        elif kind == 'eval_all':
            for a in sorted(model.cells):
                ev_out(model, a)
            log.append([seq, 'eval_all', who])
            sig.append(f'E{who}')
        elif kind == 'roundtrip':
            f = op.get('fault')
            wf, at = None, None
            if f is not None:
                if f['kind'] == 'interrupt':
                    at = f['step']
                elif f['kind'] == 'eio':
                    wf = {'kind': 'eio', 'at': f['at']}
                else:
                    wf = {'kind': 'enospc', 'after_bytes': f['after_bytes']}
            fs.reset_op(bufsize=64, write_fault=wf)
            st = Stepper(interrupt_at=at, max_steps=SAFETY_STEPS)
            with st:
                o1 = outcome_of(M.persist_to_json_file, op['path'])
            fired = list(fs.op_fired) + (
                ['interrupt_in_persist'] if st.fired == 'interrupt' else [])
            for k in fired:
                bump(f'fault:{k}')
                bump('faults_fired')
            fs.reset_op()
            if o1[0] != 'ok':
                # the save failed: the original carries on as it is
                bump('probe:failed_save_before_extract')
                log.append([seq, 'roundtrip', o1[0], 'not restored'])
                sig.append('r!')
                continue
            new = Model()
            o2 = outcome_of(new.construct_from_json_file, op['path'],
                            build_code=True)
            fs.reset_op()
            log.append([seq, 'roundtrip', o1[0], o2[0]])
            if o1[0] == 'ok' and o2[0] == 'ok':
                M = new
                bump('probe:extract_source_is_restored_generation')
                sig.append('R')
        elif kind == 'extract':
            before = dump_model(M)
            before['compiled'] = sorted(
                a for a, c in M.cells.items()
                if c.formula is not None and c.formula.ast is not None)
            fault = op.get('fault')
            at = None
            if fault is not None:
                m2 = worlds.world_model(world, cells=inputs['M'], stale=True)
                st = Stepper(max_steps=SAFETY_STEPS, extra_files=COPY_PY)
                with st:
                    outcome_of(ModelCompiler.extract, m2, focus)
                at = max(1, int(st.steps * fault['frac']))
            st = Stepper(interrupt_at=at, max_steps=SAFETY_STEPS,
                         extra_files=COPY_PY)
            with st:
                out = outcome_of(ModelCompiler.extract, M, focus)
            bump('sim_steps', st.steps)
            fired = st.fired == 'interrupt'
            if fired:
                bump('fault:interrupt_in_extract')
                bump('faults_fired')
            elif at is not None:
                bump('fault_not_fired:interrupt_in_extract')
            log.append([seq, 'extract', 'interrupted' if fired else out[0]])
            sig.append('x!' if fired else 'x')
            after = dump_model(M)
            after['compiled'] = sorted(
                a for a, c in M.cells.items()
                if c.formula is not None and c.formula.ast is not None)
            if after != before:
                viol = fail('extract-changed-original', seq,
                            interrupted=fired,
                            diff=diff_dumps(before, after))
                break
            if fired:
                # retry without the fault
                st = Stepper(max_steps=SAFETY_STEPS)
                with st:
                    out = outcome_of(ModelCompiler.extract, M, focus)
                again = dump_model(M)
                again['compiled'] = sorted(
                    a for a, c in M.cells.items()
                    if c.formula is not None and c.formula.ast is not None)
                if again != before:
                    viol = fail('extract-changed-original', seq,
                                interrupted=False, after_interrupted=True)
                    break
            if out[0] != 'ok':
                try:
                    ModelCompiler.extract(M, focus)
                    msg = ''
                except BaseException as e:      # noqa
                    msg = f'{type(e).__name__}: {str(e)[:200]}'
                viol = fail('extract-raised', seq, focus=focus, outcome=out,
                            message=msg)
                break
            # the value is canonicalised by outcome_of; fetch the object
            X = ModelCompiler.extract(M, focus)
            inputs['X'] = dict(inputs['M'])
            if any(getattr(c, 'need_update', True) is False
                   for c in M.cells.values()):
                bump('probe:extract_after_evaluation')
            # ---- oracle 2: closure --------------------------------------
            need = {a for a in closure_of_focus(world, focus)
                    if a in M.cells}
            missing = sorted(need - set(X.cells))
            if missing:
                viol = fail('closure-incomplete', seq, focus=focus,
                            missing=missing[:8],
                            extracted=sorted(X.cells)[:20])
                break
        elif kind == 'check':
            if X is None:
                continue
            # sync point only when both received the same input changes
            if any(inputs['M'].get(a) != inputs['X'].get(a)
                   for a in set(inputs['M']) | set(inputs['X'])):
                bump('check_skipped_not_in_sync')
                continue
            checks += 1
            elems = []
            for f in focus:
                if f in rnames:
                    elems.extend(range_members(rnames[f]))
                    elems.append(f)
                else:
                    elems.append(f)
            for f in dict.fromkeys(elems):
                om, fm, _ = ev_out(M, f)
                ox, fx, _ = ev_out(X, f)
                log.append([seq, 'check', f, om, ox])
                if fm or fx:
                    continue
                if om != ox:
                    viol = fail('extract-evaluates-differently', seq,
                                focus=focus, element=f, original=om,
                                extracted=ox,
                                in_extract=sorted(X.cells)[:20])
                    break
                a = names.get(f, f)
                if world['level'].get(a, 0) >= 2:
                    bump('probe:focus_depends_on_formula_cell')
                if a in world['ranges_used']:
                    bump('probe:focus_depends_on_range')
            sig.append('c')
            bump('probe:sync_point_compared')

    deps_nontrivial = any(
        world['level'].get(names.get(f, f), 0) >= 1 or f in rnames
        for f in focus)
    roles = ''.join(sorted(
        'r' if f in rnames else 'n' if f in names else
        str(min(world['level'].get(f, 0), 3)) for f in focus))
    return {'viol': viol, 'log': log, 'stats': stats, 'cover': [],
            'sig': (roles + '|' + ''.join(sig))
            if (deps_nontrivial and checks) else None}


def finding_key(case, viol):
    return viol['tag']


def reducers(case):
    focus = case['focus']
    if case['world'].get('xlsx') is not None:
        for i in range(len(focus)):
            if len(focus) > 1:
                c = copy.deepcopy(case)
                del c['focus'][i]
                yield c
        return
    for i in range(len(focus)):
        if len(focus) > 1:
            c = copy.deepcopy(case)
            del c['focus'][i]
            yield c
    for i, f in enumerate(focus):
        w = case['world']
        if f in w['names']:
            c = copy.deepcopy(case)
            c['focus'][i] = w['names'][f]
            yield c
    # cells that are neither needed by anyone nor focused nor targeted
    keep = set(focus)
    for cand in c04.drop_cell_candidates(case):
        gone = set(case['world']['order']) - set(cand['world']['order'])
        if gone & keep:
            continue
        if any(n in keep for n in set(case['world']['names']) -
               set(cand['world']['names'])):
            continue
        yield cand
    w = case['world']
    for n in list(w.get('range_names', {})):
        if n not in focus:
            c = copy.deepcopy(case)
            del c['world']['range_names'][n]
            yield c
    for n in list(w['names']):
        if n not in focus and not any(
                op.get('target') == n for op in case['ops']) and not any(
                n in str(f) for f in w['cells'].values()
                if isinstance(f, str)):
            c = copy.deepcopy(case)
            del c['world']['names'][n]
            yield c
    for a in list(w['stale']):
        c = copy.deepcopy(case)
        del c['world']['stale'][a]
        yield c
    if case['knobs'].get('fail_on') is not None:
        c = copy.deepcopy(case)
        c['knobs']['fail_on'] = None
        yield c
    for i, op in enumerate(case['ops']):
        if op['op'] == 'set' and op['value'] not in (0, 1):
            c = copy.deepcopy(case)
            for o in c['ops']:
                if o['op'] == 'set' and o.get('id') == op.get('id') \
                        and o['target'] == op['target']:
                    o['value'] = 1
            yield c
    for a, v in w['cells'].items():
        if w['level'].get(a, 0) == 0 and v not in (0, 1):
            c = copy.deepcopy(case)
            c['world']['cells'][a] = 1
            yield c
