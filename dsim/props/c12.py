"""C12 - a persisted model restores to an equivalent model.

Durability simulation: persist / crash / restart histories on a simulated raw
disk under the real jsonpickle + gzip + io.Buffered* stack.  Only SimFS bytes
survive a restart; restores run in-process and in a fresh-interpreter child.
Faults: F4 read EIO, F5 write EIO / ENOSPC, F6 short raw transfers, F7
crash-restart, F7' torn write, F9 buffer sizes, gzip header time from the
simulated clock, seeded uuid4.
"""
import copy
import json
import random

from .. import worlds
from ..canon import outcome_of, dump_model, diff_dumps
from ..seams import (Stepper, Ambient, SimFS, install_fs, uninstall_fs,
                     SimCrash)
from . import c04

ID = 'C12'
USES_CHILD = True
BUDGET = {
    'quick': {'runs': 2000, 'wall': 400, 'chunk': 20, 'shrink': 200},
    'thorough': {'runs': 120000, 'wall': 2700, 'chunk': 100, 'shrink': 400},
}
RULE = ('each run = one seeded model (all value types, extremes, ranges, cell '
        'and range names, 1-3 sheets) and a seeded history of set / eval / '
        'build_code / persist / restart+restore ops over up to 4 generations '
        'on a simulated disk, with write/read faults, short transfers, torn '
        'writes and fresh-interpreter restores; non-trivial = at least one '
        'persist whose file is later restored and judged; distinct = '
        'different sequence of (op kind, file kind, compile/eval state at '
        'persist, fault fired, child restore)')
ASSUMPTIONS = [
    'equivalence is judged on cells (address, canonical value with its kind, formula text), formulae texts, defined-name targets and range matrices, plus the outcome of evaluating every cell after build_code',
    'the reference snapshot and reference values are taken from the original right after persist returns (observation side effects on the original are undone)',
    'a persist that raises promises nothing about the file; a torn file (crash mid-write) promises nothing: outcomes of restoring it are only counted',
    'raw disk has no rename/fsync semantics because the code uses none',
]
PATHS = ['/simfs/m.json', '/simfs/m.gz', '/simfs/m.gzip', '/simfs/m.GZ',
         '/simfs/m.json.GZIP', '/simfs/a.b.c.json', '/simfs/noext',
         '/simfs/x.gz.json', '/simfs/model.Gz']
SAFETY_STEPS = 3_000_000


def link_of(path):
    """Second name of a file: same directory entry kind, same extension."""
    d, _, name = path.rpartition('/')
    return f'{d}/lnk-{name}'


def is_gz_path(path):
    name = path.rsplit('/', 1)[-1]
    ext = name[name.rfind('.'):].lower() if '.' in name[1:] else ''
    return ext in ('.gz', '.gzip')


# --------------------------------------------------------------------------
# observation helpers (shared with the restorer child)
# --------------------------------------------------------------------------

def evaluate_all(model, ev=None):
    """Outcome of evaluating every cell (sorted by address), canonical."""
    from xlcalculator import Evaluator
    out = {}
    cells = getattr(model, 'cells', None)
    if not isinstance(cells, dict):
        return {'<model>': ['raw', 'cells is not a dict']}
    if ev is None:
        ev = Evaluator(model)
    for a in sorted(cells, key=str):
        st = Stepper(max_steps=SAFETY_STEPS)
        with st:
            out[str(a)] = outcome_of(ev.evaluate, a)
    return out


def observe_undoing(model, probe=None):
    """Evaluate every cell of the original, then undo the write-backs so the
    observation does not become part of the history.  With `probe` =
    (target, value) an existing input is changed first (and changed back by
    the same undo): what the model answers after one more input change."""
    saved = []
    for coll in (model.cells, model.ranges):
        for obj in coll.values():
            d = getattr(obj, '__dict__', None)
            if d is not None:
                saved.append((obj, dict(d)))
    try:
        if probe is not None:
            model.set_cell_value(probe[0], probe[1])
        return evaluate_all(model)
    finally:
        for obj, d in saved:
            obj.__dict__.clear()
            obj.__dict__.update(d)


def restore_and_observe(path, build_code):
    from xlcalculator import Model
    m = Model()
    m.construct_from_json_file(path, build_code=build_code)
    dump = dump_model(m)
    if not build_code:
        m.build_code()
    return {'ok': True, 'dump': dump, 'values': evaluate_all(m)}


# --------------------------------------------------------------------------
# generation
# --------------------------------------------------------------------------

def gen_case(seed, tier='quick'):
    rng = random.Random(seed)
    faulty = rng.random() < 0.45
    if rng.random() < 0.15:
        # the model comes from loading a generated .xlsx workbook
        from .. import xlsx
        world = worlds.world_from_workbook(
            xlsx.gen_workbook(rng), {'seed': rng.randrange(1 << 30)})
    else:
        world = worlds.gen_world(rng, extremes=True, range_names=True,
                                 stale=rng.random() < 0.3)
    order = world['order']
    inputs = [a for a in order if world['level'][a] == 0]
    # cells that formulas refer to but that are stored nowhere (yet): a
    # value set there creates the cell after the formulas were compiled
    blanks = sorted({d for ds in world['deps'].values() for d in ds
                     if d not in world['cells']})
    if blanks and not world.get('xlsx') and rng.random() < 0.5:
        inputs = inputs + blanks
    formulas = [a for a in order if world['level'][a] > 0]
    names_of = {}
    for n, a in world['names'].items():
        names_of.setdefault(a, []).append(n)
    paths = rng.sample(PATHS, rng.choice([1, 1, 2, 3]))
    ops = []
    compiled = rng.random() < 0.75
    partial = (not compiled) and len(world['sheets']) > 1 and \
        world.get('xlsx') is None and rng.random() < 0.4
    child_p = 1.0 if tier == 'thorough' else 0.125
    use_child = rng.random() < child_p

    def persist():
        op = {'op': 'persist', 'path': rng.choice(paths),
              'bufsize': rng.choice([16, 64, 512, 8192])}
        if rng.random() < 0.1:
            # called from an exception handler of the application
            op['in_except'] = True
        real_inputs = [a for a in inputs if a in world['cells']]
        if real_inputs and rng.random() < 0.3:
            # original and restored model are both asked what they answer
            # after one more input change (through a name if there is one)
            a = rng.choice(real_inputs)
            t = rng.choice(names_of[a]) if a in names_of and \
                rng.random() < 0.6 else a
            op['probe_set'] = {'target': t,
                               'value': worlds.enc(c04.new_value(rng))}
        if faulty and rng.random() < 0.45:
            k = rng.choice(['eio', 'enospc', 'torn', 'short', 'short',
                            'interrupt', 'open', 'close', 'stack'])
            if k in ('open', 'close'):
                op['fault'] = {'kind': k}
            elif k == 'stack':
                op['fault'] = {'kind': 'stack', 'depth': rng.choice(
                    [600, 750, 850, 900, 930, 950])}
            elif k == 'interrupt':
                op['fault'] = {'kind': 'interrupt',
                               'frac': round(rng.uniform(0.0, 1.1), 3)}
            elif k == 'eio':
                import errno as _e
                op['fault'] = {'kind': 'eio', 'at': rng.choice([1, 1, 2, 3]),
                               'partial': rng.random() < 0.5,
                               'errno': rng.choice(
                                   [_e.EIO, _e.EIO, _e.EAGAIN, _e.EINTR,
                                    _e.EBUSY, _e.ETIMEDOUT, _e.EDQUOT])}
            elif k == 'short':
                op['fault'] = {'kind': 'short', 'seed': rng.randrange(1 << 30)}
            else:
                op['fault'] = {'kind': k,
                               'frac': round(rng.uniform(0.0, 1.1), 3)}
        return op

    def restore(path=None):
        op = {'op': 'restore', 'path': path or rng.choice(paths),
              'build_code': rng.random() < 0.6,
              'bufsize': rng.choice([16, 64, 512, 8192]),
              'adopt': rng.random() < 0.7}
        if rng.random() < 0.3:
            # restore into one long-lived Model object that is used for
            # every such restore of this history
            op['reuse'] = True
        if rng.random() < 0.12:
            # read through a second name of the same file (hard link made
            # right after the file first existed)
            op['via_link'] = True
        if use_child:
            op['child'] = True
        if faulty and rng.random() < 0.3:
            if rng.random() < 0.2:
                op['fault'] = {'kind': 'open'}
            elif rng.random() < 0.5:
                op['fault'] = {'kind': 'eio', 'frac': round(rng.random(), 3)}
            else:
                op['fault'] = {'kind': 'short', 'seed': rng.randrange(1 << 30)}
        return op

    if not compiled:
        ops.append(persist())
        if rng.random() < 0.7:
            ops.append(restore(ops[0]['path']))
        ops.append({'op': 'build_code'})
    if blanks and not world.get('xlsx') and rng.random() < 0.3:
        # a cell comes into being after the formulas reading it were
        # compiled; the file is written afterwards
        p0 = persist()
        p0.pop('fault', None)
        ops += [{'op': 'eval_all'},
                {'op': 'set', 'target': rng.choice(blanks),
                 'value': worlds.enc(c04.new_value(rng))},
                p0, dict(restore(p0['path']), fault=None)]
        ops[-1].pop('fault', None)
    if compiled and inputs and rng.random() < 0.08:
        # write, change, a write that fails (at open, or later), the retry
        # that every caller would make, and a restore of what is on disk
        p0 = persist()
        p0.pop('fault', None)
        bad = dict(p0)
        import errno as _e
        bad['fault'] = rng.choice([
            {'kind': 'open'}, {'kind': 'open'},
            {'kind': 'eio', 'at': 1, 'errno': rng.choice(
                [_e.EIO, _e.EAGAIN, _e.EDQUOT]), 'partial': False},
            {'kind': 'enospc', 'frac': 0.0},
            {'kind': 'interrupt', 'frac': round(rng.uniform(0.0, 0.5), 3)}])
        a_ = rng.choice([x for x in inputs if x in world['cells']] or inputs)
        ops += [p0, {'op': 'set', 'target': a_,
                     'value': worlds.enc(c04.new_value(rng))},
                bad, dict(p0), dict(restore(p0['path']), fault=None)]
        ops[-1].pop('fault', None)
    digit_inputs = [a for a in inputs
                    if world['cells'].get(a) in (1, 2, 3, 7)
                    and not isinstance(world['cells'].get(a), bool)]
    if compiled and digit_inputs and rng.random() < 0.12:
        # the file is rewritten in place with a payload of the same size
        # within the same (simulated) second, and read in between
        p0 = persist()
        p0.pop('fault', None)
        a = rng.choice(digit_inputs)
        ops += [p0, dict(restore(p0['path']), adopt=False, fault=None),
                {'op': 'set', 'target': a, 'value': rng.choice([5, 8, 9])},
                dict(p0), dict(restore(p0['path']), fault=None)]
        for o in ops:
            if o.get('fault') is None:
                o.pop('fault', None)
            o['still'] = True       # the clock does not move for these ops
    if compiled and world['names'] and not world.get('xlsx') \
            and rng.random() < 0.1:
        # two workbooks with the same names bound differently are restored,
        # one after the other, into the same long-lived Model object
        pa = dict(persist(), path='/simfs/first.json')
        pb = dict(persist(), path='/simfs/second.gz')
        for o in (pa, pb):
            o.pop('fault', None)
        ops += [pa, dict(restore(pa['path']), reuse=True, adopt=False,
                         build_code=True),
                {'op': 'sibling'}, pb,
                dict(restore(pb['path']), reuse=True, adopt=False,
                     build_code=rng.random() < 0.7)]
        for o in ops:
            if o.get('fault') is None:
                o.pop('fault', None)
    n = rng.choice([2, 3, 4, 6, 8, 12, 16])
    gens = 0
    while len(ops) < n:
        r = rng.random()
        if r < 0.22 and inputs:
            a = rng.choice(inputs)
            t = rng.choice(names_of[a]) if a in names_of and \
                rng.random() < 0.4 else a
            ops.append({'op': 'set', 'target': t,
                        'value': worlds.enc(c04.new_value(rng))})
        elif r < 0.45:
            if rng.random() < 0.5:
                ops.append({'op': 'eval_all'})
            else:
                ops.append({'op': 'eval', 'target': rng.choice(
                    formulas or order)})
        elif r < 0.70:
            ops.append(persist())
        elif r < 0.705:
            # the live model becomes a tiny constants-only workbook (no
            # names, no ranges, no formulae at all)
            ops.append({'op': 'plain'})
            ops.append(persist())
            ops.append(restore(ops[-1]['path']))
            ops[-1]['reuse'] = True
        elif r < 0.72 and world['names'] and not world.get('xlsx'):
            # from here on the live model is a sibling workbook: same names
            # and formula texts, other bindings
            ops.append({'op': 'sibling'})
            ops.append(persist())
        elif r < 0.76:
            pool = order + list(world['names']) + list(world['range_names'])
            ops.append({'op': 'extract',
                        'focus': rng.sample(pool, rng.randint(
                            1, min(3, len(pool))))})
            ops.append(persist())
        elif gens < 4:
            ops.append(restore())
            gens += 1
    # make sure something persisted gets restored and judged
    last_p = [o for o in ops if o['op'] == 'persist']
    if last_p and not any(o['op'] == 'restore' for o in ops[
            ops.index(last_p[-1]):]):
        ops.append(restore(last_p[-1]['path']))
    knobs = {'compiled_at_start': 'partial' if partial else compiled,
             'fault_class': 'faulty' if faulty else 'fault_free'}
    return {'property': ID, 'seed': seed, 'knobs': knobs, 'world': world,
            'ops': ops}


# --------------------------------------------------------------------------
# execution
# --------------------------------------------------------------------------

def run_case(case):
    fs = SimFS()
    install_fs(fs)
    try:
        with Ambient(case['seed']) as amb:
            return _run(case, fs, amb)
    finally:
        uninstall_fs()


def _run(case, fs, amb):
    from xlcalculator import Evaluator, Model
    world = case['world']
    names = world['names']
    log, stats, sig = [], {'ops': 0}, []
    viol = None
    judged = 0

    def bump(k, n=1):
        stats[k] = stats.get(k, 0) + n

    model = worlds.world_model(
        world, stale=True, build_code=case['knobs'].get(
            'compiled_at_start', True))
    compiled = case['knobs'].get('compiled_at_start', True) is True
    fs.clock = amb.clock
    if case['knobs'].get('compiled_at_start') == 'partial':
        bump('probe:partly_compiled_model')
    evaluated = False
    reuse = {}
    snaps = {}      # path -> {'dump', 'values' | None, 'state'}
    pending_values = []     # paths persisted before compilation

    def fail(tag, seq, **detail):
        detail['op'] = seq
        return {'tag': tag, 'detail': detail}

    for seq, op in enumerate(case['ops']):
        if viol is not None:
            break
        bump('ops')
        kind = op['op']
        if not op.get('still'):
            amb.clock.jump(0.3 if seq % 3 else 1.0)
        if model is None and kind != 'restore':
            log.append([seq, kind, 'skipped: no live model after crash'])
            continue
        if kind == 'set':
            t = op['target']
            out = outcome_of(model.set_cell_value, t, worlds.dec(op['value']))
            log.append([seq, 'set', t, out[0]])
            sig.append('s')
        elif kind == 'eval':
            if not compiled:
                continue
            st = Stepper(max_steps=SAFETY_STEPS)
            with st:
                out = outcome_of(Evaluator(model).evaluate, op['target'])
            bump('sim_steps', st.steps)
            evaluated = True
            log.append([seq, 'eval', op['target'], out])
            sig.append('e')
        elif kind == 'eval_all':
            if not compiled:
                continue
            vals = evaluate_all(model)
            evaluated = True
            log.append([seq, 'eval_all', len(vals)])
            sig.append('E')
        elif kind == 'plain':
            if seq % 2:
                model = worlds.build_model({'Sheet1!A1': 1,
                                            'Sheet1!B1': 'two'})
            else:
                model = Model()         # a model with nothing in it
            compiled, evaluated = True, False
            bump('probe:live_model_replaced_by_plain_workbook')
            log.append([seq, 'plain'])
            sig.append('P')
        elif kind == 'sibling':
            model = worlds.world_model(worlds.sibling_world(world))
            compiled, evaluated = True, False
            bump('probe:live_model_replaced_by_sibling_workbook')
            log.append([seq, 'sibling'])
            sig.append('S')
        elif kind == 'extract':
            if not compiled:
                continue
            from xlcalculator import ModelCompiler
            try:
                model = ModelCompiler.extract(model, op['focus'])
                log.append([seq, 'extract', 'ok'])
                bump('probe:persisted_model_is_an_extract')
                sig.append('x')
            except Exception as e:
                # extraction itself is C13's business
                log.append([seq, 'extract', type(e).__name__])
        elif kind == 'build_code':
            out = outcome_of(model.build_code)
            compiled = True
            log.append([seq, 'build_code', out[0]])
            for p in pending_values:
                if p in snaps and snaps[p]['values'] is None:
                    snaps[p]['values'] = observe_undoing(model)
            pending_values = []
            sig.append('b')
        elif kind == 'persist':
            path = op['path']
            fault = op.get('fault')
            wf, short, at = None, None, None
            of, cf = None, None
            if fault is not None:
                if fault['kind'] == 'open':
                    of = {'at': 1}
                elif fault['kind'] == 'close':
                    cf = {'writers_only': True}
                elif fault['kind'] == 'short':
                    short = fault['seed']
                elif fault['kind'] == 'interrupt':
                    # steps of a fault-free dry run decide where it lands
                    fs.reset_op(bufsize=op.get('bufsize'))
                    st = Stepper()
                    with st:
                        outcome_of(model.persist_to_json_file,
                                   '/simfs/.dry' + path[path.rfind('/') + 1:])
                    at = max(1, int(st.steps * fault['frac']))
                elif fault['kind'] == 'eio':
                    wf = {'kind': 'eio', 'at': fault['at'],
                          'errno': fault.get('errno', 5),
                          'partial': fault.get('partial', False)}
                elif fault['kind'] == 'stack':
                    pass
                else:
                    # size of a fault-free dry run decides the byte quota
                    fs.reset_op(bufsize=op.get('bufsize'))
                    dry = outcome_of(model.persist_to_json_file,
                                     '/simfs/.dry' + path[path.rfind('/') + 1:])
                    size = fs.bytes_written
                    if dry[0] != 'ok':
                        size = 2000
                    wf = {'kind': fault['kind'],
                          'after_bytes': fault.get('after_bytes', int(
                              size * fault['frac']))}
            before = dump_model(model)
            fs.reset_op(bufsize=op.get('bufsize'), write_fault=wf,
                        short_seed=short, open_fault=of, close_fault=cf)
            st = Stepper(interrupt_at=at)
            with st:
                if op.get('in_except'):
                    try:
                        raise RuntimeError('application error being handled')
                    except RuntimeError:
                        out = outcome_of(model.persist_to_json_file, path)
                    bump('probe:persist_from_exception_handler')
                elif fault is not None and fault['kind'] == 'stack':
                    # the application saves from deep inside its own
                    # recursion: little interpreter stack is left
                    from .c06 import call_deep
                    out = outcome_of(call_deep, fault['depth'],
                                     model.persist_to_json_file, path)
                    if out[0] == 'exc' and out[1] == 'RecursionError':
                        fs.fired('low_stack')
                else:
                    out = outcome_of(model.persist_to_json_file, path)
            if st.fired == 'interrupt':
                fs.fired('interrupt_in_persist')
            if path in fs.files and link_of(path) not in fs.files:
                fs.link(path, link_of(path))
            if out != ['crash'] and dump_model(model) != before:
                # not promised by the statement either way: counted only
                bump('probe:persist_changed_original')
            fired = list(fs.op_fired)
            for f in fired:
                bump(f'fault:{f}')
                bump('faults_fired')
            if fault is not None and not fired:
                bump(f'fault_not_fired:{fault["kind"]}')
            state = ('c' if compiled else 'u') + ('e' if evaluated else '-')
            # byte counts stay out of the event log: the pickled order of a
            # set (hash order) changes the compressed size, not the meaning
            log.append([seq, 'persist', path, fired, out])
            bump('raw_writes', fs.raw_writes)
            bump('bytes_written', fs.bytes_written)
            sig.append(f'p{int(is_gz_path(path))}{state}'
                       f'{fired[0][:7] if fired else ""}')
            fs.reset_op()
            if out == ['crash']:
                # process died mid-write: only the bytes survive
                snaps[path] = {'torn': True}
                model = None
                compiled = evaluated = False
                bump('probe:crash_during_persist')
                continue
            if out[0] != 'ok':
                # raised: no claim about the file
                snaps.pop(path, None)
                if out == ['interrupt']:
                    bump('probe:persist_interrupted')
                elif out[0] == 'exc' and not any(
                        f in ('write_eio', 'write_enospc', 'open_error',
                              'close_error', 'low_stack') for f in fired):
                    viol = fail('persist-raised', seq, path=path, outcome=out,
                                state=state)
                else:
                    bump('probe:persist_failed_on_injected_error')
                continue
            # returned normally -> the file must be right
            data = fs.get(path) if path in fs.files else b''
            if is_gz_path(path) != (data[:2] == b'\x1f\x8b') or (
                    not is_gz_path(path) and data[:1] != b'{'):
                viol = fail('wrong-file-format', seq, path=path,
                            head=repr(data[:12]))
                break
            snap = {'dump': dump_model(model), 'state': state,
                    'values': None, 'faulted': bool(
                        set(fired) & {'write_eio', 'write_enospc',
                                      'open_error', 'close_error'})}
            if compiled:
                snap['values'] = observe_undoing(model)
                ps = op.get('probe_set')
                if ps is not None:
                    pa = world['names'].get(ps['target'], ps['target'])
                    cell_ = model.cells.get(pa) if isinstance(
                        model.cells, dict) else None
                    known_ = ps['target'] == pa or getattr(
                        model.defined_names.get(ps['target']), 'address',
                        None) == pa
                    if cell_ is not None and cell_.formula is None \
                            and known_:
                        snap['probe_set'] = ps
                        snap['values_after_set'] = observe_undoing(
                            model, (ps['target'], worlds.dec(ps['value'])))
            else:
                pending_values.append(path)
            snaps[path] = snap
            bump(f'probe:persist_state_{state}')
            if path in snaps and 'short_write' in fired:
                bump('probe:short_writes_absorbed')
        elif kind == 'restore':
            path = op['path']
            snap_key = path
            if op.get('via_link') and link_of(path) in fs.files:
                path = link_of(path)
                bump('probe:restore_through_second_link')
            if path not in fs.files:
                log.append([seq, 'restore', path, 'no such file'])
                continue
            snap = snaps.get(snap_key)
            fault = op.get('fault')
            rf, short, rof = None, None, None
            if fault is not None:
                if fault['kind'] == 'open':
                    rof = {'at': 1}
                elif fault['kind'] == 'short':
                    short = fault['seed']
                else:
                    # count raw reads of a fault-free restore first
                    fs.reset_op(bufsize=op.get('bufsize'))
                    outcome_of(Model().construct_from_json_file, path)
                    rf = {'kind': 'eio', 'errno': fault.get('errno', 5),
                          'at': max(1, int(fs.raw_reads * fault['frac']))}
            # ---- restart: nothing survives but the bytes ------------------
            fs.reset_op(bufsize=op.get('bufsize'), read_fault=rf,
                        short_seed=short, open_fault=rof)
            if op.get('reuse'):
                if 'obj' not in reuse:
                    reuse['obj'] = Model()
                    # an evaluator that exists before the object is filled
                    # and is kept for every later restore into it
                    reuse['ev'] = Evaluator(reuse['obj'])
                else:
                    bump('probe:restore_into_used_model_object')
                new = reuse['obj']
            else:
                new = Model()
            out = outcome_of(new.construct_from_json_file, path,
                             build_code=op.get('build_code', False))
            fired = list(fs.op_fired)
            for f in fired:
                bump(f'fault:{f}')
                bump('faults_fired')
            if fault is not None and not fired:
                bump(f'fault_not_fired:read_{fault["kind"]}')
            bump('fault:crash_restart')
            log.append([seq, 'restore', path, fired, out[0]])
            sig.append(f'r{int(is_gz_path(path))}'
                       f'{int(bool(op.get("build_code")))}'
                       f'{fired[0][:6] if fired else ""}'
                       f'{"k" if op.get("child") else ""}')
            fs.reset_op()
            if snap is None or snap.get('torn'):
                # nothing promised (file from a failed / torn persist)
                if snap is not None:
                    bump(f'torn_restore_outcome:{out[0]}')
                if out[0] == 'ok' and op.get('adopt') and model is None:
                    pass
                continue
            if out[0] != 'ok':
                if 'read_eio' in fired or 'open_error' in fired:
                    bump('probe:restore_failed_on_injected_error')
                    continue
                viol = fail('restore-raised', seq, path=path, outcome=out,
                            persisted_in_state=snap['state'])
                break
            judged += 1
            got = dump_model(new)
            if got != snap['dump']:
                viol = fail('restored-model-differs', seq, path=path,
                            persisted_in_state=snap['state'],
                            diff=diff_dumps(snap['dump'], got))
                break
            if not op.get('build_code'):
                outcome_of(new.build_code)
            if snap['values'] is not None:
                vals = evaluate_all(
                    new, reuse.get('ev') if op.get('reuse') else None)
                if vals != snap['values']:
                    viol = fail('restored-model-evaluates-differently', seq,
                                path=path, persisted_in_state=snap['state'],
                                diff=diff_dumps(snap['values'], vals))
                    break
            if snap.get('values_after_set') is not None:
                # equivalent also means: answers one more input change the
                # way the original did
                ps = snap['probe_set']
                try:
                    vals2 = observe_undoing(
                        new, (ps['target'], worlds.dec(ps['value'])))
                except Exception as e:      # noqa - the set itself failed
                    vals2 = {'<set>': ['exc', type(e).__name__, False]}
                bump('probe:restored_model_probed_with_input_change')
                if vals2 != snap['values_after_set']:
                    viol = fail('restored-model-diverges-after-input-change',
                                seq, path=path, probe=ps,
                                persisted_in_state=snap['state'],
                                diff=diff_dumps(snap['values_after_set'],
                                                vals2))
                    break
            bump('probe:restore_judged_equal')
            if snap['state'].endswith('e'):
                bump('probe:restore_of_file_persisted_after_evaluation')
            # ---- the same bytes in a fresh interpreter --------------------
            if op.get('child'):
                from ..restorer import Child
                resp = Child.get().restore(
                    path, fs.get(path), op.get('build_code', False),
                    bufsize=op.get('bufsize'), seed=case['seed'])
                bump('probe:fresh_interpreter_restore')
                if not resp.get('ok'):
                    viol = fail('fresh-process-restore-raised', seq,
                                path=path, response=resp)
                    break
                if resp['dump'] != json.loads(json.dumps(snap['dump'])):
                    viol = fail('fresh-process-restore-differs', seq,
                                path=path, diff=diff_dumps(
                                    json.loads(json.dumps(snap['dump'])),
                                    resp['dump']))
                    break
                if snap['values'] is not None and resp['values'] != \
                        json.loads(json.dumps(snap['values'])):
                    viol = fail('fresh-process-evaluates-differently', seq,
                                path=path, diff=diff_dumps(
                                    json.loads(json.dumps(snap['values'])),
                                    resp['values']))
                    break
            if op.get('reuse') and (op.get('adopt') or model is None):
                reuse.pop('obj', None)
                reuse.pop('ev', None)
            if op.get('adopt') or model is None:
                # the restored model becomes the live one (next generation);
                # it is compiled now and was observed by evaluate_all above
                model = new
                compiled = True
                evaluated = snap['values'] is not None
                bump('probe:generation_adopted')
    stats['sim_clock_seconds'] = int(amb.clock.advanced)
    return {'viol': viol, 'log': log, 'stats': stats, 'cover': [],
            'sig': '|'.join(sig) if judged else None}


def finding_key(case, viol):
    return viol['tag']


def reducers(case):
    w = case['world']
    if w.get('xlsx') is not None:
        return
    yield from c04.drop_cell_candidates(case)
    for a in list(w['stale']):
        c = copy.deepcopy(case)
        del c['world']['stale'][a]
        yield c
    for n in list(w.get('range_names', {})):
        c = copy.deepcopy(case)
        del c['world']['range_names'][n]
        yield c
    for n in list(w['names']):
        if not any(op.get('target') == n for op in case['ops']) and \
                not any(n in str(f) for f in w['cells'].values()
                        if isinstance(f, str)):
            c = copy.deepcopy(case)
            del c['world']['names'][n]
            yield c
    for i, op in enumerate(case['ops']):
        for key, val in (('child', None), ('bufsize', 8192),
                         ('build_code', True)):
            if key in op and op[key] != val:
                c = copy.deepcopy(case)
                if val is None:
                    del c['ops'][i][key]
                else:
                    c['ops'][i][key] = val
                yield c
        if op['op'] in ('persist', 'restore') and \
                op['path'] != '/simfs/m.json':
            c = copy.deepcopy(case)
            old = op['path']
            for o in c['ops']:
                if o.get('path') == old:
                    o['path'] = '/simfs/m.json'
            if not any(o.get('path') == '/simfs/m.json' for o in case['ops']):
                yield c
        if op['op'] == 'set' and op['value'] not in (0, 1):
            c = copy.deepcopy(case)
            c['ops'][i]['value'] = 1
            yield c
    for a, v in w['cells'].items():
        if w['level'].get(a, 0) == 0 and v not in (0, 1):
            c = copy.deepcopy(case)
            c['world']['cells'][a] = 1
            yield c
