"""C05 - evaluation is deterministic, idempotent, order-independent, never
changes the model's constants / formulas / names / cell set, and does not
accumulate memory.

Schedule search: the simulator decides which evaluator evaluates which cell
next over shared and separate copies of one model (no input changes), with
interrupt / transient-failure / clock-jump faults; every outcome is compared
with the *isolated* outcome (fresh copy, fresh evaluator, only that cell).
Footprint: long soak runs inside the simulation, object counts sampled at
N/3, 2N/3, N.
"""
import copy
import gc
import hashlib
import json
import random
import sys
import tracemalloc
from collections import deque, OrderedDict, defaultdict

from .. import worlds
from ..canon import outcome_of, immutable_part, diff_dumps, canon
from ..seams import (Stepper, Ambient, UserFuncs, SimInterrupt, SimBudget,
                     SimFS, install_fs, uninstall_fs)
from . import c04

ID = 'C05'
USES_INDEX = True
USES_CHILD = True
SOAK_EVERY = {'quick': 45, 'thorough': 100}
BUDGET = {
    'quick': {'runs': 1500, 'wall': 300, 'chunk': 25, 'shrink': 200},
    'thorough': {'runs': 60000, 'wall': 2400, 'chunk': 100, 'shrink': 400},
}
RULE = ('each run = one seeded acyclic model (half of them multi-sheet and '
        'with stale cached values) and a seeded schedule of (model copy, '
        'evaluator, cell) evaluations with repetitions over 1-3 copies and '
        '1-3 evaluators per copy, some created mid-schedule, optional '
        'interrupt / transient / clock-jump faults; every 45th run (100th in thorough) is a soak '
        'of N identical evaluation rounds with object-count sampling; '
        'non-trivial = some formula cell is evaluated at least twice or by '
        'two evaluators; distinct = different sequence of (copy, evaluator, '
        'cell level, fault fired)')
ASSUMPTIONS = [
    'isolated outcome = fresh copy of the same model, fresh evaluator of the same kind, only that cell evaluated',
    'footprint = len(gc.get_objects()) and total len() of all lists/dicts/sets after gc.collect() (both exactly reproducible), sys.getallocatedblocks() (bound 300 + evaluations/4, measured noise <= 205) and tracemalloc bytes; last third of the soak only; bounds 64 objects / 64 container slots / 256 KiB independent of N',
    'soaks in which asynchronous interrupts were injected record their growth but are not judged (an abort is not an evaluation in the sense of the statement)',
    'generated text constants cannot be parsed as partial dates (Excel itself is clock dependent there)',
    'an interrupted or transiently failed call makes no claim about its own result',
    'in a soak every round must repeat the outcomes (canonical value or exception class) of round 1; calls hit by an injected interrupt are skipped',
    'a constant holding an object (an Excel error value) is snapshot with its instance state, not only its canonical value',
]
_CONTAINERS = (list, dict, set, deque, OrderedDict, defaultdict)
SAFETY_STEPS = 2_000_000
OBJ_BOUND = 64
SLOT_BOUND = 64
BYTE_BOUND = 256 * 1024


# --------------------------------------------------------------------------
# generation
# --------------------------------------------------------------------------

def gen_case(seed, tier='quick', index=1):
    rng = random.Random(seed)
    if index % SOAK_EVERY.get(tier, 250) == 0:
        return gen_soak(rng, seed, tier)
    faulty = rng.random() < 0.4
    half = rng.random() < 0.5
    world = worlds.gen_world(
        rng, sheets=rng.choice([2, 3]) if half else None,
        userfuncs=rng.random() < 0.4)
    add_env_cells(rng, world)
    reenter = None
    fcells = [a for a in world['order'] if world['level'][a] > 0
              and not a.startswith('Env!')]
    if fcells and rng.random() < 0.12:
        # one formula suspends itself (before it reads its operands) while
        # the caller evaluates another cell through the SAME evaluator
        a = rng.choice(fcells)
        world['cells'][a] = '=IF(PAUSE(TRUE),' + world['cells'][a][1:] + ',0)'
        reenter = {'at': a, 'other': rng.choice(world['order'])}
    if half and not world['stale']:
        for a in world['order']:
            if world['level'][a] > 0 and rng.random() < 0.6:
                world['stale'][a] = rng.choice([999, 'stale', -1, True])
    ncopies = rng.choice([1, 1, 2, 3])
    kinds = ['default', 'spy', 'uf']
    evs = {c: [rng.choice(kinds)] for c in range(ncopies)}
    ops = []
    cells = world['order']
    formulas = [a for a in cells if world['level'][a] > 0] or cells
    names_of = {a: n for n, a in world['names'].items()}
    length = rng.choice([2, 4, 6, 10, 16, 24, 40])
    with_sets = rng.random() < 0.3
    threads = rng.random() < 0.2
    inputs = [a for a in cells if world['level'][a] == 0]
    eq_family = eq_target = None
    if with_sets and inputs and rng.random() < 0.4:
        eq_family = rng.choice([['', 0, False, None, 0.0, '0', -0.0],
                                [1, True, 1.0, '1', 'TRUE', 'true'],
                                ['abc', 'ABC', 'Abc', ' abc'],
                                [2, 2.0, '2', '2.0', ' 2'],
                                ['n/a', 'N/A', 'N/a']])
        used_ = [d for a in formulas for d in world['deps'].get(a, ())
                 if d in inputs]
        eq_target = rng.choice(used_ or inputs)
    # every formula cell at least twice on copy 0 (positions random)
    plan = []
    for a in formulas:
        plan += [(0, a), (0, a)]
    while len(plan) < length:
        plan.append((rng.randrange(ncopies),
                     rng.choice(formulas if rng.random() < 0.8 else cells)))
    rng.shuffle(plan)
    plan = plan[:max(length, 2)]
    for c, a in plan:
        if len(evs[c]) < 3 and rng.random() < 0.15:
            k = rng.choice(kinds)
            evs[c].append(k)
            ops.append({'op': 'newev', 'copy': c, 'kind': k})
        if rng.random() < 0.03:
            pp = {'op': 'persist', 'copy': c, 'path': '/simfs/s.json'}
            if rng.random() < 0.6:
                pp['fault'] = rng.choice([
                    {'kind': 'enospc', 'after_bytes': rng.choice(
                        [0, 10, 200, 1500])},
                    {'kind': 'eio', 'at': 1},
                    {'kind': 'interrupt', 'step': rng.randint(1, 400)}])
            ops.append(pp)
        if rng.random() < 0.04:
            ops.append({'op': 'clock_jump',
                        'delta': rng.choice([86400, -86400, 3.15e7, 1e9])})
        t = names_of[a] if a in names_of and rng.random() < 0.3 else a
        if t != a and rng.random() < 0.2:
            # another capitalisation of the name (the library treats it as
            # an unknown address; it must not start to remember it)
            v = rng.choice([t.upper(), t.title(), t.swapcase()])
            if v not in world['names'] and v not in world['cells']:
                t = v
        if with_sets and inputs and rng.random() < 0.2:
            # an input changed behind the evaluators' backs: through the
            # model itself or through one particular evaluator
            tgt_, val_ = rng.choice(inputs), c04.new_value(rng)
            if eq_family is not None:
                # one input runs through values that compare equal (to
                # Python or to Excel) without being the same thing
                tgt_, val_ = eq_target, rng.choice(eq_family)
            ops.append({'op': 'set', 'copy': c,
                        'via': rng.choice(['model', 'evaluator']),
                        'ev': rng.randrange(len(evs[c])),
                        'target': tgt_,
                        'value': worlds.enc(val_)})
        if rng.random() < 0.02:
            ops.append({'op': 'checkpoint', 'copy': c,
                        'path': '/simfs/ck.json'})
        e = {'op': 'eval', 'copy': c, 'ev': rng.randrange(len(evs[c])),
             'target': t}
        if threads and rng.random() < 0.5:
            # issued from another (sequentially run) caller thread
            e['thread'] = True
        ops.append(e)
    rfs = [a for a in world['ranges_used'] if any(
        world['level'].get(m, 0) == 0 and m in world['cells']
        for m in world['deps'].get(a, ()))]
    if rfs and rng.random() < 0.15:
        # an evaluation cut short after it has gathered a range, then a
        # member of that range changes, then the range is needed again
        f = rng.choice(rfs)
        mem = rng.choice([m for m in world['deps'][f]
                          if world['level'].get(m, 0) == 0
                          and m in world['cells']])
        users = [a for a in formulas if f in world['deps'].get(a, ())] + [f]
        pre = [{'op': 'eval', 'copy': 0, 'ev': 0, 'target': rng.choice(users),
                'fault': {'kind': 'interrupt',
                          'frac': round(rng.uniform(0.6, 1.0), 3)}},
               {'op': 'set', 'copy': 0, 'via': rng.choice(
                   ['model', 'evaluator']), 'ev': 0, 'target': mem,
                'value': worlds.enc(c04.new_value(rng))},
               {'op': 'eval', 'copy': 0, 'ev': 0, 'target': f},
               {'op': 'eval', 'copy': 0, 'ev': 0, 'target': rng.choice(users)}]
        ops = pre + ops
    if faulty:
        evals = [i for i, o in enumerate(ops) if o['op'] == 'eval']
        for _ in range(rng.choice([1, 1, 2, 3])):
            if evals:
                ops[rng.choice(evals)]['fault'] = {
                    'kind': 'interrupt',
                    'frac': round(rng.uniform(0.02, 1.2), 3)}
    knobs = {'copies': ncopies, 'first_ev': [evs[c][0] for c in range(ncopies)],
             'fail_on': rng.choice([1, 2, 4]) if faulty else None,
             'fail_exc': rng.choice(['oserr', 'keyerr', 'valerr', 'notimpl']),
             'max_empty': rng.choice([100, 100, 1, 3]),
             'decoy': rng.random() < 0.25,
             'reenter': reenter,
             # isolated outcomes from a process that has evaluated nothing
             'pristine_isolated': rng.random() < 0.3,
             # how the models came to be (the statement says "a model")
             'provenance': rng.choice(['compiled'] * 6 + ['extracted'] * 2 +
                                      ['restored', 'restored+extracted'])}
    return {'property': ID, 'seed': seed, 'kind': 'sched', 'knobs': knobs,
            'world': world, 'ops': ops}


add_env_cells = worlds.add_env_cells


def gen_soak(rng, seed, tier):
    world = worlds.gen_world(rng, n_formulas=rng.randint(2, 7), stale=False,
                             userfuncs=False)
    worlds.add_env_cells(rng, world)
    # cells whose every evaluation produces objects that never compare equal
    # to earlier ones (NaN) or fresh big values: whatever memoises on them
    # grows with the number of evaluations
    nan = '(1E308*10-1E308*10)'
    for k, f in enumerate(
            rng.sample(
                ['=ROUND(1E308*10-1E308*10,2)',
                 '=ROUNDUP(1E308*10-1E308*10,1)',
                 '=INT(1E308*10-1E308*10)', '=ABS(1E308*10-1E308*10)',
                 '=MAX(1E308*10-1E308*10,1)', '=FACT(150)&"x"',
                 '=SUM(1E308*10-1E308*10,2)',
                 '=IF(1E308*10-1E308*10>0,1,2)'], 2) +
            # every family of functions once (financial, math, text, date,
            # statistical, lookup, information)
            rng.sample([t.format(n=nan) for t in (
                '=PMT(0.05,10,1000+{n})', '=PV(0.05,10,{n})',
                '=NPV(0.1,{n},5)', '=SLN({n},1,5)', '=SQRT({n})',
                '=POWER({n},2)', '=MOD({n},3)', '=LN({n})', '=EXP({n})',
                '=FLOOR({n},1)', '=TRUNC({n})', '=SIGN({n})', '=COS({n})',
                '=AVERAGE({n},1)', '=MIN({n},1)', '=LEN({n})',
                '={n}&"x"', '=CHOOSE(1,{n},2)', '=ISNUMBER({n})',
                '={n}={n}', '={n}<1', '=-{n}', '={n}*2', '={n}^2',
                '=PMT({n},10,1000)', '=PV(0.05,{n},100)',
                '=YEAR({n})', '=ROUNDDOWN({n},1)', '=DEGREES({n})')], 3)):
        a = f'Sheet1!W{k + 1}'
        world['cells'][a] = f
        world['deps'][a] = []
        world['level'][a] = 1
        world['order'].append(a)
    formulas = [a for a in world['order'] if world['level'][a] > 0]
    if rng.random() < 0.4:
        # a cell whose evaluation raises (Python-level failure) every round,
        # and one that depends on it
        dep = rng.choice(world['order'])
        for k, f in enumerate(['=NOSUCHFN({d})+1', '={prev}*2']):
            a = f'Sheet1!X{k + 1}'
            world['cells'][a] = f.format(
                d=dep, prev='Sheet1!X1')
            world['order'].append(a)
            world['level'][a] = world['level'].get(dep, 0) + 1 + k
            world['deps'][a] = [dep] if k == 0 else ['Sheet1!X1']
            formulas.append(a)
    if rng.random() < 0.5:
        targets = list(formulas)
    else:
        targets = [rng.choice(formulas) for _ in range(rng.randint(1, 4))]
    n = rng.choice([300, 450, 600]) if tier == 'quick' else rng.choice(
        [450, 900, 1500, 3000])
    vary = None
    used_inputs = sorted({d for t in targets
                          for d in c04.closure(world, t)
                          if world['level'].get(d, 1) == 0
                          and d in world['cells']})
    if used_inputs and rng.random() < 0.5:
        vary = {'target': rng.choice(used_inputs),
                'kind': rng.choice(['int', 'float', 'text', 'text'])}
        # consumers of the varying input from several function families
        # (numeric functions fed a text produce error values whose reason
        # mentions the value)
        sheet_, loc_ = vary['target'].split('!')
        for k, f in enumerate(rng.sample(
                ['=ABS({a})', '=ROUND({a},1)', '=LEFT({a},2)', '=LEN({a})',
                 '=MOD({a},3)', '=IF({a}>0,1,2)', '=YEAR({a})',
                 '=MATCH({a},{a}:{a},0)', '={a}&"x"', '=SUM({a})',
                 '=SQRT({a})', '=UPPER({a})', '=INT({a})', '={a}*2'], 3)):
            a = f'{sheet_}!V{k + 1}'
            if a in world['cells']:
                continue
            world['cells'][a] = f.format(a=loc_)
            world['deps'][a] = [vary['target']]
            world['level'][a] = 1
            world['order'].append(a)
            targets.append(a)
    knobs = {'rounds': n, 'evaluators': rng.choice([1, 2]), 'vary': vary,
             'interrupt_every': rng.choice([0, 0, 3]),
             'interrupt_frac': round(rng.uniform(0.1, 0.9), 2),
             'new_evaluator_every': rng.choice([0, 0, 50])}
    return {'property': ID, 'seed': seed, 'kind': 'soak', 'knobs': knobs,
            'world': world,
            'ops': [{'op': 'eval', 'target': t} for t in targets]}


# --------------------------------------------------------------------------
# execution
# --------------------------------------------------------------------------

def make_evaluator(model, kind, uf):
    from xlcalculator import Evaluator
    if kind == 'uf':
        return Evaluator(model, uf.namespace())
    ev = Evaluator(model)
    if kind == 'spy':
        # registered after creation, into this evaluator's own namespace
        ns = uf.namespace()
        ev.namespace['SPY'] = ns['SPY']
    return ev


def run_case(case):
    if case.get('kind') == 'soak':
        return run_soak(case)
    fs = SimFS()
    install_fs(fs)
    try:
        return run_sched(case, fs)
    finally:
        uninstall_fs()


def call_in_thread(st, fn, *args):
    """Run one call in a fresh caller thread and wait for it (no
    concurrency: the scheduler still decides who runs - one at a time)."""
    import threading
    box = []

    def body():
        with st:
            box.append(outcome_of(fn, *args))
    t = threading.Thread(target=body, name='sim-caller')
    t.start()
    t.join()
    return box[0] if box else ['exc', 'ThreadDied', False]


def run_sched(case, fs):
    from xlcalculator import ast_nodes
    world = case['world']
    knobs = case['knobs']
    names = world['names']
    log, stats, sig = [], {'ops': 0}, []
    viol = None
    held = []       # (op, target, object returned, its canonical form then)

    def bump(k, n=1):
        stats[k] = stats.get(k, 0) + n

    with Ambient(case['seed']) as amb:
        ast_nodes.MAX_EMPTY = knobs.get('max_empty', 100)
        ncopies = knobs.get('copies', 1)
        if knobs.get('decoy'):
            worlds.run_decoy(world)
            bump('probe:decoy_model_first')
        how = knobs.get('provenance', 'compiled')

        def make_model(cells=None):
            m = worlds.world_model(world, cells=cells, stale=True)
            if how == 'compiled':
                return m
            from xlcalculator import Model, ModelCompiler
            try:
                if 'restored' in how:
                    m.persist_to_json_file('/simfs/c05.json')
                    m = Model()
                    m.construct_from_json_file('/simfs/c05.json',
                                               build_code=True)
                    fs.reset_op()
                if 'extracted' in how:
                    m = ModelCompiler.extract(
                        m, list(world['order']) + list(world['names']))
            except Exception:
                bump('provenance_failed')
                return worlds.world_model(world, cells=cells, stale=True)
            return m
        if how != 'compiled':
            bump(f'probe:model_{how}')
        models = [make_model() for _ in range(ncopies)]
        uf = UserFuncs(knobs.get('fail_on'),
                           knobs.get('fail_exc', 'oserr'))
        first = knobs.get('first_ev') or ['default'] * ncopies
        evs = {c: [(first[c % len(first)],
                    make_evaluator(models[c], first[c % len(first)], uf))]
               for c in range(ncopies)}
        iso = {}
        seen_eval = {}
        inputs = {c: dict(world['cells']) for c in range(ncopies)}
        version = {c: 0 for c in range(ncopies)}

        def isolated(addr, kind, c):
            # same simulated date: text such as "8-8" is legitimately read
            # as a date of the *current* year (Excel does the same)
            key = (addr, kind, c, version[c], amb.clock.t // 86400)
            if key not in iso and knobs.get('pristine_isolated') and \
                    how == 'compiled':
                from ..restorer import Child
                resp = Child.get().twin_eval(
                    world, inputs[c], [addr], max_empty=knobs.get(
                        'max_empty', 100), seed=case['seed'], stale=True,
                    evaluator_kind=kind, clock=amb.clock.t)
                if resp.get('ok'):
                    bump('probe:isolated_outcome_from_pristine_process')
                    iso[key] = (resp['outcomes'][addr], None)
            if key not in iso:
                m = make_model(inputs[c])
                e = make_evaluator(m, kind, UserFuncs(None))
                st = Stepper(max_steps=SAFETY_STEPS)
                with st:
                    o = outcome_of(e.evaluate, addr)
                iso[key] = (o, st.steps)
                bump('sim_steps', st.steps)
            return iso[key]

        for seq, op in enumerate(case['ops']):
            if viol is not None:
                break
            bump('ops')
            if op['op'] == 'clock_jump':
                amb.clock.jump(op['delta'])
                bump('fault:clock_jump')
                bump('faults_fired')
                log.append([seq, 'clock_jump', op['delta']])
                continue
            c = op.get('copy', 0) % ncopies
            if op['op'] == 'persist':
                f = op.get('fault')
                wf, at = None, None
                if f is not None:
                    if f['kind'] == 'interrupt':
                        at = f['step']
                    elif f['kind'] == 'eio':
                        wf = {'kind': 'eio', 'at': f['at']}
                    else:
                        wf = {'kind': 'enospc',
                              'after_bytes': f['after_bytes']}
                fs.reset_op(bufsize=64, write_fault=wf)
                before = immutable_part(models[c])
                st = Stepper(interrupt_at=at, max_steps=SAFETY_STEPS)
                with st:
                    out = outcome_of(models[c].persist_to_json_file,
                                     op['path'])
                fired = list(fs.op_fired) + (
                    ['interrupt_in_persist'] if st.fired == 'interrupt'
                    else [])
                fs.reset_op()
                for k in fired:
                    bump(f'fault:{k}')
                    bump('faults_fired')
                bump('probe:persist_between_evaluations')
                log.append([seq, 'persist', c, fired, out[0]])
                sig.append('p' + (fired[0][:1] if fired else ''))
                continue
            if op['op'] == 'checkpoint':
                o1 = outcome_of(models[c].persist_to_json_file, op['path'])
                o2 = outcome_of(models[c].construct_from_json_file,
                                op['path'], build_code=True) \
                    if o1[0] == 'ok' else ['skipped']
                fs.reset_op()
                bump('probe:same_model_reloaded_from_checkpoint')
                log.append([seq, 'checkpoint', c, o1[0], o2[0]])
                sig.append('k')
                continue
            if op['op'] == 'newev':
                evs[c].append((op['kind'],
                               make_evaluator(models[c], op['kind'], uf)))
                bump('probe:evaluator_created_mid_schedule')
                log.append([seq, 'newev', c, op['kind']])
                continue
            kind, ev = evs[c][op.get('ev', 0) % len(evs[c])]
            if op['op'] == 'set':
                value = worlds.dec(op['value'])
                if op.get('via') == 'evaluator':
                    ev.set_cell_value(op['target'], value)
                else:
                    models[c].set_cell_value(op['target'], value)
                inputs[c][names.get(op['target'], op['target'])] = op['value']
                version[c] += 1
                seen_eval = {k: v for k, v in seen_eval.items() if k[0] != c}
                bump('probe:input_changed_between_evaluations')
                log.append([seq, 'set', c, op.get('via'), op['target']])
                sig.append('s' + op.get('via', 'm')[0])
                continue
            target = op['target']
            addr = names.get(target, target)
            want, steps = isolated(addr, kind, c)
            before = immutable_part(models[c])
            fault = op.get('fault')
            at = None
            if fault is not None:
                if steps is None:
                    steps = 400
                at = fault.get('step') or max(1, int(steps * fault['frac']))
            st = Stepper(interrupt_at=at, max_steps=SAFETY_STEPS)
            fl0 = uf.fired
            re = knobs.get('reenter')
            nested = []
            if re and kind == 'uf' and at is None:
                def hook(ev=ev, other=re['other']):
                    nested.append(outcome_of(ev.evaluate, other))
                uf.on_pause = hook
            if op.get('thread'):
                out = call_in_thread(st, ev.evaluate, target)
                bump('probe:evaluated_from_another_thread')
            else:
                kept = []

                def capture(t, ev=ev, kept=kept):
                    v = ev.evaluate(t)
                    kept.append(v)
                    return v
                with st:
                    out = outcome_of(capture, target)
                if kept and out[0] == 'ok' and st.fired is None:
                    held.append((seq, target, kept[0], out[1]))
                    del held[:-8]
            bump('sim_steps', st.steps)
            uf.on_pause = None
            if nested:
                bump('probe:reentrant_evaluation_same_evaluator')
            fired = None
            if st.fired == 'interrupt':
                fired = 'interrupt'
                bump('fault:interrupt')
                bump('faults_fired')
            elif at is not None:
                bump('fault_not_fired:interrupt')
            if uf.fired > fl0:
                fired = 'flaky'
                bump('fault:transient_userfunc')
                bump('faults_fired')
            log.append([seq, 'eval', c, op.get('ev', 0), target, fired, out])
            lvl = world['level'].get(addr, 0)
            sig.append(f'{c}{op.get("ev", 0)}{kind[0]}{lvl}'
                       f'{fired[0] if fired else ""}')
            after = immutable_part(models[c])
            if after != before:
                viol = {'tag': 'model-mutated-by-evaluate',
                        'detail': {'op': seq, 'target': target,
                                   'outcome': out[0],
                                   'diff': diff_dumps(before, after)}}
                break
            if out[0] == 'budget':
                viol = {'tag': 'eval-does-not-terminate',
                        'detail': {'op': seq, 'target': target}}
                break
            if fired is not None:
                continue
            # a value handed to the caller is the caller's: what is evaluated
            # afterwards must not change it
            for s0, t0, v0, c0 in held:
                if s0 != seq and canon(v0) != c0:
                    viol = {'tag': 'returned-value-changed-later',
                            'detail': {'op': seq, 'target': target,
                                       'returned_by_op': s0,
                                       'for': t0, 'was': c0,
                                       'now': canon(v0)}}
                    break
            if viol is not None:
                break
            n_before = seen_eval.get((c, addr), 0)
            seen_eval[(c, addr)] = n_before + 1
            if n_before:
                bump('probe:repeated_evaluation')
            if len({e for (cc, e) in
                    [(o.get('copy', 0) % ncopies, o.get('ev', 0))
                     for o in case['ops'][:seq + 1]
                     if o['op'] == 'eval' and names.get(
                         o['target'], o['target']) == addr] if cc == c}) > 1:
                bump('probe:same_cell_by_two_evaluators')
            if addr in world['stale']:
                bump('probe:stale_cache_cell_evaluated')
            if json.loads(json.dumps(out)) != want:
                viol = {'tag': 'order-or-repetition-dependent-value',
                        'detail': {'op': seq, 'copy': c, 'evaluator': kind,
                                   'target': target, 'got': out,
                                   'isolated': want,
                                   'evaluations_of_this_cell_before': n_before}}
                break
        stats['sim_clock_seconds'] = int(amb.clock.advanced)
        stats['clock_reads'] = amb.clock.reads
    nontrivial = any(world['level'].get(a, 0) > 0 and n > 1
                     for (c, a), n in seen_eval.items())
    return {'viol': viol, 'log': log, 'stats': stats, 'cover': [],
            'sig': ('sched|' + '|'.join(sig)) if nontrivial else None}


def _noop_evaluate(addr):
    return None


def _drop_warning(*args, **kw):
    return None


def soak_loop(evaluate_of, targets, rounds, interrupt_every, steps_for,
              before_round=None):
    """Runs `rounds` identical rounds; allocates nothing that survives an
    iteration.  Returns (object counts at N/3, 2N/3, N; bytes grown in the
    last third; running hash; calls; interrupts fired)."""
    marks = (rounds // 3, 2 * rounds // 3, rounds)
    counts, slots, blocks = [], [], []
    h = hashlib.blake2b(digest_size=8)
    calls = fired = 0
    base_bytes = 0
    first = []          # outcomes of round 1 (allocated before the 1st mark)
    changed = []        # first call whose outcome differs from round 1
    for r in range(1, rounds + 1):
        if before_round is not None:
            before_round(r)
        for i, t in enumerate(targets):
            calls += 1
            o = None
            at = None
            if interrupt_every and calls % interrupt_every == 0:
                at = steps_for(t)
            evaluate = evaluate_of(r)
            if at is not None:
                st = Stepper(interrupt_at=at)
                try:
                    with st:
                        v = evaluate(t)
                    h.update(repr(v).encode())
                    if st.fired is None:
                        o = _soak_outcome(v)
                except SimInterrupt:
                    fired += 1
                except SimBudget:
                    pass
                except Exception as e:
                    h.update(b'exc')
                    if st.fired is None:
                        o = 'exc:' + type(e).__name__
                    e = None
                st = None
            else:
                try:
                    v = evaluate(t)
                    h.update(repr(v).encode())
                    o = _soak_outcome(v)
                except Exception as e:
                    h.update(b'exc')
                    o = 'exc:' + type(e).__name__
                    e = None
            v = None
            if r == 1:
                first.append(o)
            elif o is not None and first[i] is not None and \
                    o != first[i] and not changed and before_round is None:
                changed.append([r, t, first[i][:300], o[:300]])
            o = None
        if r in marks:
            gc.collect()
            objs = gc.get_objects()
            counts.append(len(objs))
            own = (id(counts), id(slots), id(blocks), id(objs))
            slots.append(sum(len(o) for o in objs
                             if type(o) in _CONTAINERS
                             and id(o) not in own))
            blocks.append(sys.getallocatedblocks())
            objs = None
            if r == marks[1]:
                tracemalloc.start()
                base_bytes = tracemalloc.get_traced_memory()[0]
            elif r == marks[2]:
                grown = tracemalloc.get_traced_memory()[0] - base_bytes
                tracemalloc.stop()
    soak_loop.changed = changed[0] if changed else None
    return counts, grown, h.hexdigest(), calls, fired, slots, blocks


def _soak_outcome(v):
    return json.dumps(canon(v), sort_keys=True)


def run_soak(case):
    from xlcalculator import Evaluator
    world, knobs = case['world'], case['knobs']
    targets = [op['target'] for op in case['ops'] if op['op'] == 'eval']
    rounds = knobs['rounds']
    stats = {'ops': 0, 'soaks': 1}
    viol = None
    log = []
    if tracemalloc.is_tracing():
        tracemalloc.stop()
    with Ambient(case['seed']):
        # self-check: the loop itself must read 0 against a no-op evaluator
        counts0, grown0, _, _, _, slots0, _ = soak_loop(
            lambda r: _noop_evaluate, targets, 90, 0, None)
        if counts0[2] - counts0[1] != 0 or slots0[2] - slots0[1] != 0:
            raise RuntimeError(
                f'soak harness allocates on its own: {counts0} {slots0}')
        model = worlds.world_model(world)
        nev = knobs.get('evaluators', 1)
        evs = [Evaluator(model) for _ in range(nev)]
        steps = {}
        for t in targets:
            m2 = worlds.world_model(world)
            st = Stepper()
            with st:
                outcome_of(Evaluator(m2).evaluate, t)
            steps[t] = max(1, int(st.steps * knobs.get('interrupt_frac', .5)))
        every = knobs.get('new_evaluator_every', 0)

        def evaluate_of(r):
            if every and r % every == 0:
                evs[r % nev] = Evaluator(model)
            return evs[r % nev].evaluate

        vary = knobs.get('vary')
        before_round = None
        if vary and vary['target'] in model.cells:
            # one input takes a value it never had before in every round
            # (the footprint must not remember them)
            def before_round(r, a=vary['target'], k=vary['kind']):
                model.set_cell_value(
                    a, r * 7 if k == 'int' else r * 0.37 if k == 'float'
                    else f'item {r}')
            stats['soaks_with_varying_input'] = 1
        import warnings
        with warnings.catch_warnings():
            # the interpreter's standard warning filters, as in a deployment
            # (the harness silences warnings elsewhere); nothing is printed
            warnings.resetwarnings()
            warnings.simplefilter('default')
            warnings.showwarning = _drop_warning
            counts, grown, digest, calls, fired, slots, blocks = soak_loop(
                evaluate_of, targets, rounds,
                knobs.get('interrupt_every', 0),
                lambda t: steps[t], before_round)
    changed = soak_loop.changed
    d_obj = counts[2] - counts[1]
    d_slots = slots[2] - slots[1]
    d_blocks = blocks[2] - blocks[1]
    stats['max:soak_container_slot_growth_last_third'] = max(d_slots, 0)
    stats['max:soak_allocated_block_growth_last_third'] = max(d_blocks, 0)
    stats['ops'] = calls
    stats['soak_evaluations'] = calls
    stats['max:soak_object_growth_last_third'] = max(d_obj, 0)
    stats['max:soak_bytes_growth_last_third'] = max(grown, 0)
    if fired:
        stats['fault:interrupt'] = fired
        stats['faults_fired'] = fired
    log.append(['soak', rounds, len(targets), counts[1] - counts[0], d_obj,
                digest, fired])
    # bytes are corroboration only (tracemalloc sees interpreter noise), the
    # deterministic object count decides
    if changed is not None:
        viol = {'tag': 'repetition-changes-outcome',
                'detail': {'round': changed[0], 'target': changed[1],
                           'round_1': changed[2], 'now': changed[3],
                           'rounds': rounds,
                           'why': 'the same cell, same inputs, same '
                           'evaluator(s): the outcome depends on how often '
                           'it has been evaluated'}}
    elif fired:
        # An asynchronous abort is not an evaluation in the sense of the
        # statement (and a cycle through a half-built pandas/numpy object
        # array left behind by it cannot be avoided by the library): growth
        # under interrupts is recorded, not judged.
        stats['max:soak_object_growth_with_interrupts'] = max(d_obj, 0)
        stats['soaks_with_interrupts'] = 1
    elif d_obj > OBJ_BOUND:
        viol = {'tag': 'memory-accumulates',
                'detail': {'rounds': rounds, 'evaluations': calls,
                           'objects_at_thirds': counts,
                           'object_growth_last_third': d_obj,
                           'bytes_growth_last_third': grown,
                           'per_evaluation': round(
                               d_obj / max(1, calls / 3), 2),
                           'bound_objects': OBJ_BOUND}}
    elif d_slots > SLOT_BOUND:
        viol = {'tag': 'memory-accumulates',
                'detail': {'rounds': rounds, 'evaluations': calls,
                           'container_slots_at_thirds': slots,
                           'slot_growth_last_third': d_slots,
                           'why': 'some list/dict/set keeps growing (its '
                           'elements need not be GC-tracked objects)',
                           'bound_slots': SLOT_BOUND}}
    elif d_blocks > 300 + (calls // 3) // 4:
        # allocator blocks: also sees growth made of objects the garbage
        # collector does not track (floats, strings, untracked dicts); noise
        # measured at <= 205 blocks independent of the number of evaluations
        viol = {'tag': 'memory-accumulates',
                'detail': {'rounds': rounds, 'evaluations': calls,
                           'allocated_blocks_at_thirds': blocks,
                           'block_growth_last_third': d_blocks,
                           'per_evaluation': round(
                               d_blocks / max(1, calls / 3), 2),
                           'bound_blocks': 300 + (calls // 3) // 4}}
    elif grown > BYTE_BOUND:
        viol = {'tag': 'memory-accumulates',
                'detail': {'rounds': rounds, 'evaluations': calls,
                           'objects_at_thirds': counts,
                           'bytes_growth_last_third': grown,
                           'bound_bytes': BYTE_BOUND}}
    sig = f'soak|{rounds}|{len(targets)}|{knobs.get("evaluators")}|' \
          f'{knobs.get("interrupt_every")}|{knobs.get("new_evaluator_every")}'
    return {'viol': viol, 'log': log, 'stats': stats, 'cover': [],
            'sig': sig}


def finding_key(case, viol):
    return viol['tag']


def reducers(case):
    if case.get('kind') == 'soak':
        k = case['knobs']
        if k['rounds'] > 150:
            c = copy.deepcopy(case)
            c['knobs']['rounds'] = max(150, k['rounds'] // 2)
            yield c
        if len(case['ops']) > 1:
            for i in range(len(case['ops'])):
                c = copy.deepcopy(case)
                del c['ops'][i]
                yield c
        for key, val in (('evaluators', 1), ('interrupt_every', 0),
                         ('new_evaluator_every', 0)):
            if k.get(key) != val:
                c = copy.deepcopy(case)
                c['knobs'][key] = val
                yield c
        yield from c04.drop_cell_candidates(case)
        return
    yield from c04.drop_cell_candidates(case)
    w = case['world']
    for a in list(w['stale']):
        c = copy.deepcopy(case)
        del c['world']['stale'][a]
        yield c
    for i, op in enumerate(case['ops']):
        if op.get('ev'):
            c = copy.deepcopy(case)
            c['ops'][i]['ev'] = 0
            yield c
        if op.get('copy'):
            c = copy.deepcopy(case)
            c['ops'][i]['copy'] = 0
            yield c
        if op.get('target') in w['names']:
            c = copy.deepcopy(case)
            c['ops'][i]['target'] = w['names'][op['target']]
            yield c
    k = case['knobs']
    if k.get('copies', 1) > 1 and not any(
            o.get('copy') for o in case['ops']):
        c = copy.deepcopy(case)
        c['knobs']['copies'] = 1
        yield c
    if k.get('fail_on') is not None:
        c = copy.deepcopy(case)
        c['knobs']['fail_on'] = None
        yield c
    if k.get('max_empty', 100) != 100:
        c = copy.deepcopy(case)
        c['knobs']['max_empty'] = 100
        yield c
