"""C04 - evaluation always reflects the current inputs (no stale results).

History simulation: a seeded scheduler issues set / eval / get calls through
1-3 evaluators sharing one model; after every step the aged object graph is
compared with a *fresh twin* compiled from the abstract current input state.
Faults: F1 interrupt inside an evaluation, F2 transient user-function failure,
F8 clock jumps, F9 MAX_EMPTY knob, F10 stale cached values in formula cells.
"""
import copy
import json
import random

from .. import worlds
from ..canon import outcome_of, canon
from ..seams import (Stepper, Ambient, UserFuncs, SimFS, install_fs,
                     uninstall_fs)

ID = 'C04'
USES_CHILD = True
BUDGET = {
    'quick': {'runs': 4000, 'wall': 240, 'chunk': 40, 'shrink': 300},
    'thorough': {'runs': 250000, 'wall': 2400, 'chunk': 200, 'shrink': 600},
}
RULE = ('each run = one seeded acyclic model (constants of every type, '
        'formulas over cells/ranges/names on 1-3 sheets, optional stale '
        'cached values) plus a seeded history of 1-25 set/eval/get calls '
        'through 1-3 evaluators with optional interrupt / transient-failure / '
        'clock-jump faults; non-trivial = the history contains a set followed '
        'by an eval of a formula cell; distinct = different sequence of '
        '(evaluator, op kind, target role, via-name, fault fired)')
ASSUMPTIONS = [
    'the yardstick is a freshly compiled model (real ModelCompiler + Evaluator) holding the current inputs, so defects of pure formula semantics cancel out',
    'an interrupted or transiently failed evaluate() makes no claim about its own result; every later call is judged exactly',
    'get_cell_value of a formula cell may return the last directly evaluated value or any value a dependency visit could legitimately have written since',
    'exceptions are compared by class only, never by message',
    'cells reading the clock (NOW, TODAY; 10% of the worlds) are judged against a twin compiled and evaluated at the same simulated instant by the pristine process',
    'a checkpoint re-load that fails (truncated file, read error) leaves the history unchanged: the file held the same contents as the live model, so either outcome of the load must keep satisfying the statement',
]
SAFETY_STEPS = 2_000_000


def _j(x):
    return json.dumps(x, sort_keys=True)


# --------------------------------------------------------------------------
# generation
# --------------------------------------------------------------------------

def closure(world, a):
    seen, stack = [], [a]
    s = set()
    while stack:
        x = stack.pop()
        if x in s:
            continue
        s.add(x)
        seen.append(x)
        stack.extend(world['deps'].get(x, ()))
    return seen


def new_value(rng):
    r = rng.random()
    if r < 0.55:
        return rng.choice(worlds.NUMS + [5, 8, 42, -7, 1.5])
    if r < 0.72:
        return rng.choice(worlds.TEXTS)
    if r < 0.80:
        return rng.choice([True, False])
    if r < 0.86:
        return rng.choice(['', None])
    if r < 0.92:
        return rng.choice(worlds.DATES)
    if r < 0.94:
        return rng.choice(worlds.ODD_VALUES)
    if r < 0.96:
        # an error value (the object the library itself uses for it)
        return worlds.dec({'$err': rng.choice(worlds.ERR_CODES)})
    return rng.randint(-50, 50)


def gen_ops(rng, world, n_ev, max_ops=25, allow_faults=True):
    order = world['order']
    inputs = [a for a in order if world['level'][a] == 0]
    blanks = sorted({d for ds in world['deps'].values() for d in ds
                     if d not in world['cells']})
    if blanks and rng.random() < 0.5:
        inputs = inputs + blanks
    formulas = [a for a in order if world['level'][a] > 0]
    names_of = {}
    for n, a in world['names'].items():
        names_of.setdefault(a, []).append(n)

    def spell(a):
        if a in names_of and rng.random() < 0.5:
            return rng.choice(names_of[a])
        return a

    def ev():
        return rng.randrange(n_ev)

    def op_set(a=None):
        a = a or rng.choice(inputs)
        o = {'op': 'set', 'ev': ev(), 'target': spell(a),
             'value': worlds.enc(new_value(rng))}
        if rng.random() < 0.08 and a in world['cells'] or \
                a not in world['cells'] and rng.random() < 0.3:
            # the API also accepts the XLCell object itself (for a cell that
            # is stored nowhere yet: one the caller made)
            o['target'] = a
            o['as_cell'] = True
        return o

    def op_eval(a=None):
        a = a or rng.choice(formulas if formulas and rng.random() < 0.8
                            else order)
        return {'op': 'eval', 'ev': ev(), 'target': spell(a)}

    def op_get(a=None):
        a = a or rng.choice(order + (blanks if rng.random() < 0.3 else []))
        o = {'op': 'get', 'ev': ev(), 'target': spell(a)}
        if rng.random() < 0.08:
            o['target'] = a
            o['as_cell'] = True
        return o

    ops = []
    # biased openings: the shapes the statement names
    if formulas and rng.random() < 0.7:
        f = rng.choice(sorted(formulas, key=lambda a: -world['level'][a])[:3])
        below = [a for a in closure(world, f) if world['level'].get(a, 0) == 0]
        deep = [a for a in below
                if world['level'][f] >= 2 and a not in world['deps'][f]]
        pat = rng.choice(['ese', 'ese', 'range', 'sse', 'name', 'ege', 'alt',
                          'alt', 'alt', 'peek', 'equalish', 'equalish'])
        branchy = [a for a in formulas if 'IF(' in str(world['cells'][a])
                   or 'CHOOSE(' in str(world['cells'][a])]
        if pat == 'alt' and branchy and rng.random() < 0.6:
            # formulas whose precedents depend on the data
            f = rng.choice(branchy)
            users = [a for a in formulas if f in closure(world, a)]
            if users and rng.random() < 0.4:
                f = rng.choice(users)
            below = [a for a in closure(world, f)
                     if world['level'].get(a, 0) == 0]
        tgt = rng.choice(deep or below or inputs)
        if pat == 'ese':
            ops += [op_eval(f), op_set(tgt), op_eval(f)]
        elif pat == 'range':
            rf = [a for a in formulas if a in world['ranges_used']]
            if rf:
                f = rng.choice(rf)
                mem = [a for a in world['deps'][f]
                       if world['level'].get(a, 0) == 0 and a in world['cells']]
                if mem:
                    ops += [op_eval(f), op_set(rng.choice(mem)), op_eval(f)]
        elif pat == 'sse':
            ops += [op_set(tgt), op_set(rng.choice(below or inputs)),
                    op_eval(f)]
        elif pat == 'name' and names_of:
            a = rng.choice(list(names_of))
            nm = rng.choice(names_of[a])
            if world['level'][a] == 0:
                users = [x for x in formulas if a in closure(world, x)]
                ops += [{'op': 'set', 'ev': ev(), 'target': nm,
                         'value': worlds.enc(new_value(rng))},
                        {'op': 'get', 'ev': ev(), 'target': a},
                        op_eval(rng.choice(users) if users else None)]
            else:
                ops += [op_set(), {'op': 'eval', 'ev': ev(), 'target': nm},
                        {'op': 'get', 'ev': ev(), 'target': a}]
        elif pat == 'alt':
            ops += [op_eval(f)]
            for _ in range(rng.randint(2, 6)):
                ops += [op_set(rng.choice(below or inputs)), op_eval(f)]
        elif pat == 'equalish':
            # one input runs through values that are equal / hash alike in
            # Python but are different things to a spreadsheet
            family = rng.choice([['', 0, False, None, 0.0, '0', -0.0],
                                 [1, True, 1.0, '1', 'TRUE', 'true'],
                                 ['abc', 'ABC', 'Abc', ' abc'],
                                 [2, 2.0, '2', '2.0', ' 2']])
            crit = [a for a in formulas if 'COUNTIF' in str(world['cells'][a])
                    or '=' in str(world['cells'][a])[1:]]
            if crit and rng.random() < 0.6:
                f = rng.choice(crit)
                below = [a for a in closure(world, f)
                         if world['level'].get(a, 0) == 0]
            tgt = rng.choice(below or inputs)
            vals = rng.sample(family, min(len(family), rng.randint(3, 5)))
            for v in vals:
                o = op_set(tgt)
                o['value'] = worlds.enc(v)
                ops += [o, op_eval(f)]
        elif pat == 'peek' and blanks:
            # a referenced cell that is stored nowhere is looked at (not
            # set) before the formulas that read it are evaluated
            b = rng.choice(blanks)
            users = [a for a in formulas if b in world['deps'].get(a, ())]
            if users:
                u = rng.choice(users)
                ops += [{'op': 'get', 'ev': ev(), 'target': b}, op_eval(u),
                        {'op': 'get', 'ev': ev(), 'target': b}, op_eval(u)]
        elif pat == 'ege':
            ops += [op_eval(f), op_get(f), op_set(tgt), op_get(f), op_eval(f),
                    op_get(f)]
    n = rng.choice([1, 2, 3, 4, 6, 8, 12, 18, 25] +
                   ([32, 40] if max_ops > 25 else []))
    while len(ops) < min(n, max_ops):
        r = rng.random()
        if r < 0.36:
            ops.append(op_set())
        elif r < 0.80:
            ops.append(op_eval())
        elif r < 0.93:
            ops.append(op_get())
        elif r < 0.935:
            ops.append({'op': 'recompile'})     # build_code() once more
        elif r < 0.945:
            # checkpoint: the same Model object is saved and re-loaded from
            # the file; evaluators created before keep being used
            ck = {'op': 'checkpoint', 'path': rng.choice(
                ['/simfs/ck.json', '/simfs/ck.json', '/simfs/ck.gz'])}
            if allow_faults and rng.random() < 0.5:
                # the re-load fails: the file lost its tail (a torn write
                # nobody noticed) or the disk reports an error while it is
                # read; the live model must stay what it was
                ck['damage'] = rng.choice([
                    {'kind': 'truncate',
                     'frac': round(rng.uniform(0.0, 0.999), 3)},
                    {'kind': 'read_eio', 'at': rng.choice([1, 1, 2, 3])}])
            ops.append(ck)
        elif r < 0.96:
            # the model is saved (possibly unsuccessfully) in between
            p = {'op': 'persist', 'path': rng.choice(
                ['/simfs/h.json', '/simfs/h.gz'])}
            if allow_faults and rng.random() < 0.6:
                p['fault'] = rng.choice([
                    {'kind': 'enospc', 'after_bytes': rng.choice(
                        [0, 10, 200, 1500])},
                    {'kind': 'eio', 'at': 1},
                    {'kind': 'interrupt', 'step': rng.randint(1, 400)}])
            ops.append(p)
        else:
            ops.append({'op': 'clock_jump',
                        'delta': rng.choice([86400, -86400, 3.15e7, -3.15e7,
                                             1e9, 0.001])})
    ops = ops[:max_ops]
    # faults: at most 3, biased to the first evaluation after a set
    if allow_faults:
        evals = [i for i, o in enumerate(ops) if o['op'] == 'eval']
        after_set = [i for i in evals if i > 0 and ops[i - 1]['op'] == 'set']
        k = rng.choice([1, 1, 2, 3])
        for _ in range(k):
            if not evals:
                break
            pool = after_set if after_set and rng.random() < 0.5 else evals
            i = rng.choice(pool)
            ops[i]['fault'] = {'kind': 'interrupt',
                               'frac': round(rng.uniform(0.02, 1.2), 3)}
    return ops


def deep_world(rng):
    """A running total 105-170 cells deep (depth-triggered behaviour)."""
    n = rng.randint(105, 170)
    cells = {'Sheet1!A1': rng.choice([1, 5, 10])}
    deps = {'Sheet1!A1': []}
    level = {'Sheet1!A1': 0}
    order = ['Sheet1!A1']
    for i in range(2, n + 1):
        a = f'Sheet1!A{i}'
        cells[a] = f'=A{i - 1}+1'
        deps[a] = [f'Sheet1!A{i - 1}']
        level[a] = i - 1
        order.append(a)
    return {'sheets': ['Sheet1'], 'cells': cells, 'deps': deps,
            'level': level, 'names': {}, 'stale': {}, 'ranges_used': {},
            'range_names': {}, 'order': order, 'soft_deps': {}}


VOLATILE = ['=NOW()', '=TODAY()', '=YEAR(TODAY())', '=NOW()-TODAY()',
            '=TODAY()+1', '=INT(NOW())', '=NOW()*1', '=IF(NOW()>0,TODAY(),0)',
            '=MONTH(NOW())', '=DAY(TODAY())&"."']


def add_volatile_cells(rng, world):
    """Formulas that read the clock, on a sheet of their own, and one cell
    on top of them."""
    k = 0
    vol = []
    for f in rng.sample(VOLATILE, rng.randint(1, 3)):
        k += 1
        a = f'Vol!A{k}'
        world['cells'][a] = f
        world['deps'][a] = []
        world['level'][a] = 1
        world['order'].append(a)
        vol.append(a)
    a = f'Vol!A{k + 1}'
    world['cells'][a] = '=A1+1'
    world['deps'][a] = ['Vol!A1']
    world['level'][a] = 2
    world['order'].append(a)
    vol.append(a)
    world['volatile'] = vol
    if 'Vol' not in world['sheets']:
        world['sheets'] = list(world['sheets']) + ['Vol']


def gen_case(seed, tier='quick'):
    rng = random.Random(seed)
    faulty = rng.random() < 0.5
    if rng.random() < 0.02:
        world = worlds_deep = deep_world(rng)
        end = world['order'][-1]
        mid = world['order'][len(world['order']) // 2]
        ops = [{'op': 'eval', 'ev': 0, 'target': end},
               {'op': 'set', 'ev': 0, 'target': 'Sheet1!A1',
                'value': rng.choice([1000, 7, -3])},
               {'op': 'eval', 'ev': 0, 'target': end},
               {'op': 'get', 'ev': 0, 'target': mid},
               {'op': 'set', 'ev': 0, 'target': 'Sheet1!A1', 'value': 2},
               {'op': 'eval', 'ev': 0, 'target': mid},
               {'op': 'eval', 'ev': 0, 'target': end}]
        knobs = {'n_evaluators': 1, 'max_empty': 100, 'fail_on': None,
                 'fault_class': 'fault_free', 'provenance': 'compiled',
                 'decoy': False, 'deep': True}
        return {'property': ID, 'seed': seed, 'knobs': knobs, 'world': world,
                'ops': ops}
    world = worlds.gen_world(rng, userfuncs=faulty and rng.random() < 0.5)
    if rng.random() < 0.25:
        worlds.add_env_cells(rng, world)
    volatile = rng.random() < 0.1
    if volatile:
        add_volatile_cells(rng, world)
    n_ev = rng.choice([1, 1, 2, 3])
    ops = gen_ops(rng, world, n_ev, allow_faults=faulty,
                  max_ops=40 if tier == 'thorough' else 25)
    if volatile:
        # the clock is one of the current inputs of these models: it moves
        # between the calls, and calls are cut short while it is being read
        out = []
        for o in ops:
            if o['op'] == 'eval' and rng.random() < 0.5:
                out.append({'op': 'clock_jump', 'delta': rng.choice(
                    [1.5, 61, 3600, 86400, -86400, 1e6, 3.15e7])})
            out.append(o)
            if o['op'] == 'eval' and rng.random() < 0.3:
                out.append({'op': 'eval', 'ev': o['ev'],
                            'target': rng.choice(world['volatile'])})
        ops = out
        if faulty:
            evals = [o for o in ops if o['op'] == 'eval'
                     and o['target'] in world['volatile']
                     and not o.get('fault')]
            if evals:
                rng.choice(evals[:3])['fault'] = {
                    'kind': 'interrupt',
                    'frac': round(rng.uniform(0.05, 0.95), 3)}
    knobs = {'n_evaluators': n_ev,
             'max_empty': rng.choice([100, 100, 100, 1, 2, 5]),
             'fail_on': rng.choice([1, 2, 3]) if faulty else None,
             'fail_exc': rng.choice(['oserr', 'keyerr', 'valerr', 'notimpl']),
             'fault_class': 'faulty' if faulty else 'fault_free',
             # how the model under test came to be: the statement speaks of
             # "a model", whatever its provenance
             'decoy': rng.random() < 0.25,
             # build_code() only after the first input changes
             'late_compile': rng.random() < 0.1,
             'provenance': rng.choice(
                 ['compiled'] * 5 + ['extracted'] * 2 + ['restored'] * 2 +
                 ['restored+extracted', 'reused-object', 'reused-object'])}
    return {'property': ID, 'seed': seed, 'knobs': knobs, 'world': world,
            'ops': ops}


# --------------------------------------------------------------------------
# execution
# --------------------------------------------------------------------------

class History:
    """One execution of the ops on an aged model, judged against twins."""

    def __init__(self, case, respell=False):
        self.case = case
        self.world = case['world']
        self.respell = respell
        self.log = []
        self.stats = {'ops': 0}
        self.cover = []
        self.sig = []
        self.viol = None

    def bump(self, k, n=1):
        self.stats[k] = self.stats.get(k, 0) + n

    def twin(self):
        return worlds.world_model(self.world, cells=self.inputs)

    def twin_outcome(self, addr, tag=0):
        from xlcalculator import Evaluator
        ev = Evaluator(self.twin(), UserFuncs(None).namespace(tag=tag))
        st = Stepper(max_steps=SAFETY_STEPS)
        with st:
            out = outcome_of(ev.evaluate, addr)
        self.bump('sim_steps', st.steps)
        return out, st.steps

    def truths(self, addrs, tag=0):
        """Twin values of several cells (one shared second twin)."""
        from xlcalculator import Evaluator
        ev = Evaluator(self.twin(), UserFuncs(None).namespace(tag=tag))
        out = {}
        for a in addrs:
            o = outcome_of(ev.evaluate, a)
            out[a] = o[1] if o[0] == 'ok' else None
        return out

    def spell(self, target):
        """Name <-> address re-spelling for the equivalence oracle."""
        if not self.respell:
            return target
        names = self.world['names']
        if target in names:
            return names[target]
        for n, a in sorted(names.items()):
            if a == target:
                return n
        return target

    def fail(self, tag, seq, **detail):
        detail['op'] = seq
        self.viol = {'tag': tag, 'detail': detail}

    def provenance(self, model, how):
        """The same model contents reached another way: restored from a
        persisted file and / or extracted with every cell and name in focus."""
        from xlcalculator import Model, ModelCompiler
        if how == 'compiled':
            return model
        self.bump(f'probe:model_{how}')
        try:
            if how == 'reused-object':
                # one Model object that first held another workbook (same
                # names and formula texts, other bindings), then this one
                sib = worlds.world_model(worlds.sibling_world(self.world))
                sib.persist_to_json_file('/simfs/c04-sibling.json')
                model.persist_to_json_file('/simfs/c04.json')
                model = Model()
                model.construct_from_json_file('/simfs/c04-sibling.json',
                                               build_code=True)
                model.construct_from_json_file('/simfs/c04.json',
                                               build_code=True)
                return model
            if 'restored' in how:
                model.persist_to_json_file('/simfs/c04.json')
                model = Model()
                model.construct_from_json_file('/simfs/c04.json',
                                               build_code=True)
            if 'extracted' in how:
                focus = list(self.world['order']) + list(self.world['names'])
                model = ModelCompiler.extract(model, focus)
        except Exception as e:
            # persistence / extraction themselves are C12 / C13 business
            self.bump('provenance_failed')
            self.log.append(['provenance', how, type(e).__name__])
            return worlds.world_model(self.world, stale=True)
        return model

    def run(self):
        from xlcalculator import Evaluator, ast_nodes
        case, world = self.case, self.world
        knobs = case['knobs']
        names = world['names']
        with Ambient(case['seed']) as amb:
            self.clock = amb.clock
            ast_nodes.MAX_EMPTY = knobs.get('max_empty', 100)
            if knobs.get('decoy'):
                worlds.run_decoy(world, UserFuncs(None).namespace())
                self.bump('probe:decoy_model_first')
            late = bool(knobs.get('late_compile')) and \
                knobs.get('provenance', 'compiled') == 'compiled'
            model = worlds.world_model(world, stale=True,
                                       build_code=not late)
            if late:
                self.bump('probe:inputs_set_before_build_code')
            model = self.provenance(model, knobs.get('provenance', 'compiled'))
            if self.viol is not None:
                return self
            uf = UserFuncs(knobs.get('fail_on'),
                           knobs.get('fail_exc', 'oserr'))
            evs = [Evaluator(model, uf.namespace(tag=k))
                   for k in range(knobs.get('n_evaluators', 1))]
            self.inputs = dict(world['cells'])
            level = world['level']
            acc = {}        # formula cell -> acceptable get() values
            for a in world['order']:
                if level[a] > 0:
                    acc[a] = {_j(canon(worlds.dec(
                        world['stale'][a])))} if a in world['stale'] \
                        else {_j(['Blank'])}
            evaluated = set()
            pending_set = False
            for seq, op in enumerate(case['ops']):
                if self.viol is not None:
                    break
                self.bump('ops')
                kind = op['op']
                if kind == 'clock_jump':
                    amb.clock.jump(op['delta'])
                    self.bump('fault:clock_jump')
                    self.bump('faults_fired')
                    self.log.append([seq, 'clock_jump', op['delta']])
                    continue
                if late and kind != 'set':
                    model.build_code()
                    late = False
                if kind == 'recompile':
                    out = outcome_of(model.build_code)
                    self.bump('probe:build_code_called_again')
                    self.log.append([seq, 'recompile', out[0]])
                    self.sig.append('b')
                    continue
                if kind == 'persist':
                    self.do_persist(seq, op, model)
                    continue
                if kind == 'checkpoint':
                    from ..seams import _Installed
                    fs_ = _Installed.fs
                    fs_.reset_op(bufsize=64)
                    o1 = outcome_of(model.persist_to_json_file, op['path'])
                    dmg = op.get('damage') if o1[0] == 'ok' else None
                    rf = None
                    if dmg and dmg['kind'] == 'truncate':
                        data = fs_.get(op['path'])
                        fs_.put(op['path'],
                                data[:int(len(data) * dmg['frac'])])
                        self.bump('fault:checkpoint_file_truncated')
                        self.bump('faults_fired')
                    elif dmg:
                        rf = {'kind': 'eio', 'at': dmg['at']}
                    fs_.reset_op(bufsize=64, read_fault=rf)
                    o2 = outcome_of(model.construct_from_json_file,
                                    op['path'], build_code=True) \
                        if o1[0] == 'ok' else ['skipped']
                    for k in fs_.op_fired:
                        self.bump(f'fault:{k}')
                        self.bump('faults_fired')
                    fs_.reset_op()
                    if dmg and o2[0] == 'exc':
                        self.bump('probe:reload_failed_model_keeps_going')
                    self.bump('probe:same_model_reloaded_from_checkpoint')
                    self.log.append([seq, 'checkpoint', o1[0], o2[0]])
                    self.sig.append('k')
                    continue
                ev = evs[op.get('ev', 0) % len(evs)]
                target = self.spell(op['target'])
                addr = names.get(target, target)
                via = target in names
                handle = target
                if op.get('as_cell') and addr in model.cells:
                    handle = model.cells[addr]
                    self.bump('probe:cell_object_as_address')
                elif op.get('as_cell') and kind == 'set' and '!' in addr:
                    from xlcalculator.xltypes import XLCell
                    handle = XLCell(addr, None)
                    self.bump('probe:new_cell_object_as_address')
                if kind == 'set':
                    value = worlds.dec(op['value'])
                    out = outcome_of(ev.set_cell_value, handle, value)
                    self.log.append([seq, 'set', op['target'], out[0]])
                    if out[0] != 'ok':
                        self.fail('set-raised', seq, target=target,
                                  outcome=out)
                        break
                    self.inputs[addr] = op['value']
                    pending_set = True
                    if via:
                        self.bump('probe:set_via_name')
                    got = outcome_of(ev.get_cell_value, handle)
                    if got != ['ok', canon(value)]:
                        self.fail('get-after-set', seq, target=target,
                                  set=canon(value), got=got)
                    self.sig.append(f's{op.get("ev", 0)}{int(via)}')
                elif kind == 'get':
                    got = outcome_of(ev.get_cell_value, handle)
                    self.log.append([seq, 'get', op['target'], got])
                    if addr in acc:
                        if got[0] != 'ok' or _j(got[1]) not in acc[addr]:
                            self.fail('get-formula', seq, target=target,
                                      got=got,
                                      acceptable=sorted(acc[addr])[:6])
                    elif addr in self.inputs:
                        want = canon(worlds.dec(self.inputs[addr]))
                        if got != ['ok', want]:
                            self.fail('get-constant', seq, target=target,
                                      got=got, want=want)
                    self.sig.append(f'g{int(via)}')
                elif kind == 'eval':
                    self.do_eval(seq, op, ev, uf, model, target, addr, via,
                                 acc, evaluated, pending_set)
                    pending_set = False
            self.stats['sim_clock_seconds'] = int(amb.clock.advanced)
            self.stats['clock_reads'] = amb.clock.reads
        return self

    def do_persist(self, seq, op, model):
        """Saving the model (successfully or not) is not an input change:
        everything afterwards is judged as before."""
        from ..seams import _Installed
        fs = _Installed.fs
        f = op.get('fault')
        wf, at = None, None
        if f is not None:
            if f['kind'] == 'interrupt':
                at = f['step']
            elif f['kind'] == 'eio':
                wf = {'kind': 'eio', 'at': f['at']}
            else:
                wf = {'kind': 'enospc', 'after_bytes': f['after_bytes']}
        fs.reset_op(bufsize=64, write_fault=wf)
        st = Stepper(interrupt_at=at, max_steps=SAFETY_STEPS)
        with st:
            out = outcome_of(model.persist_to_json_file, op['path'])
        fired = list(fs.op_fired) + (
            ['interrupt_in_persist'] if st.fired == 'interrupt' else [])
        fs.reset_op()
        for k in fired:
            self.bump(f'fault:{k}')
            self.bump('faults_fired')
        self.bump('probe:persist_between_evaluations')
        self.log.append([seq, 'persist', op['path'], fired, out[0]])
        self.sig.append('p' + (fired[0][:1] if fired else ''))

    def do_eval(self, seq, op, ev, uf, model, target, addr, via, acc,
                evaluated, pending_set):
        world = self.world
        level = world['level']
        tag = op.get('ev', 0) % self.case['knobs'].get('n_evaluators', 1)
        want, steps = self.twin_outcome(addr, tag=tag)
        clos = [a for a in closure(world, addr) if level.get(a, 0) > 0]
        truth = self.truths(clos, tag) if clos else {}
        # ---- state coverage (before the call) ---------------------------
        def status(a):
            cell = model.cells.get(a)
            if cell is None:
                return '-'
            if a not in evaluated and getattr(cell, 'need_update', True):
                return 'N'
            return 'C' if canon(cell.value) == truth.get(a) else 'S'
        if level.get(addr, 0) > 0:
            st_t = status(addr)
            st_d = ''.join(sorted(status(d) for d in world['deps'][addr]
                                  if level.get(d, 0) > 0))
            self.cover.append(f'eval|{st_t}|{st_d}|{int(via)}')
            if st_t == 'S':
                self.bump('probe:eval_of_stale_target')
            if 'S' in st_d:
                self.bump('probe:eval_over_stale_dependency')
            if pending_set:
                self.bump('probe:stale_window_eval_after_set')
            if addr in world['ranges_used'] and pending_set:
                self.bump('probe:range_member_changed_between_evals')
            if any(d.split('!')[0] != addr.split('!')[0]
                   for d in world['deps'][addr]):
                self.bump('probe:cross_sheet_dependency')
        stored_before = {a: canon(model.cells[a].value)
                         for a in clos if a in model.cells}
        # ---- the call, possibly faulted ----------------------------------
        fault = op.get('fault')
        at = None
        if fault is not None and fault['kind'] == 'interrupt':
            at = fault.get('step') or max(1, int(steps * fault['frac']))
        st = Stepper(interrupt_at=at, max_steps=SAFETY_STEPS)
        flaky_before = uf.fired
        with st:
            out = outcome_of(ev.evaluate, target)
        self.bump('sim_steps', st.steps)
        fired = None
        if st.fired == 'interrupt':
            fired = 'interrupt'
            self.bump('fault:interrupt')
            self.bump('faults_fired')
            if st.where and st.where[0] == 'ast_nodes.py' and \
                    st.where[2] == 'eval' and 150 <= st.where[1] <= 175:
                self.bump('probe:interrupt_inside_range')
            if any(getattr(model.cells[a], 'need_update', True) is False
                   and a not in evaluated for a in clos if a in model.cells):
                self.bump('probe:interrupt_after_writeback')
        elif at is not None:
            self.bump('fault_not_fired:interrupt')
        if uf.fired > flaky_before:
            fired = 'flaky'
            self.bump('fault:transient_userfunc')
            self.bump('faults_fired')
        self.log.append([seq, 'eval', op['target'], fired, out])
        self.sig.append(f'e{op.get("ev", 0)}{int(via)}'
                        f'{"L" if level.get(addr, 0) else "c"}'
                        f'{fired[0] if fired else ""}')
        # whatever happened, dependencies may have been written
        evaluated.update(clos)
        for a in clos:
            if truth.get(a) is not None:
                acc.setdefault(a, set()).add(_j(truth[a]))
        if out[0] == 'budget':
            self.fail('eval-does-not-terminate', seq, target=target,
                      outcome=out)
            return
        if fired is not None:
            # relaxed: no claim about the faulted call itself - and that
            # includes whatever it wrote back (pandas' C hashtable swallows
            # an exception raised inside __eq__/__hash__, so an interrupted
            # VLOOKUP can "complete" with a wrong value): what is stored now
            # is "the last value computed" for these cells
            for a in clos:
                if a in model.cells:
                    acc.setdefault(a, set()).add(
                        _j(canon(model.cells[a].value)))
            return
        # ---- oracle 1: equals the fresh twin -------------------------------
        if self.case['knobs'].get('decoy') and out == want:
            # the in-process twin was compiled after the decoy as well; ask
            # a process that has never seen any model
            from ..restorer import Child
            resp = Child.get().twin_eval(
                world, self.inputs, [addr], tag=tag,
                max_empty=self.case['knobs'].get('max_empty', 100),
                seed=self.case['seed'], clock=self.clock.t)
            self.bump('probe:twin_in_pristine_process')
            if resp.get('ok'):
                want = resp['outcomes'][addr]
                out = json.loads(json.dumps(out))
        vol = world.get('volatile')
        if vol and out == want and set(vol) & set(closure(world, addr)):
            # the clock is an input of this cell: the reference is a model
            # compiled and evaluated at the same simulated instant by a
            # process that has lived through none of this history
            from ..restorer import Child
            resp = Child.get().twin_eval(
                world, self.inputs, [addr], tag=tag,
                max_empty=self.case['knobs'].get('max_empty', 100),
                seed=self.case['seed'], clock=self.clock.t)
            self.bump('probe:volatile_cell_against_pristine_process')
            if resp.get('ok'):
                want = resp['outcomes'][addr]
                out = json.loads(json.dumps(out))
        if out != want:
            self.fail('stale-or-wrong-value', seq, target=target, got=out,
                      fresh_twin=want)
            return
        if out[0] == 'ok' and want[0] == 'ok' and truth.get(addr) is None \
                and level.get(addr, 0) > 0:
            pass
        # ---- oracle 1b: whatever the call wrote into the cells it visited
        # is "the value computed for that cell" (cells it did not visit keep
        # what they had)
        vol = set(world.get('volatile') or ())
        for a in clos:
            if a == addr or a not in model.cells or truth.get(a) is None \
                    or (vol and vol & set(closure(world, a))):
                continue
            stored = canon(model.cells[a].value)
            if stored != stored_before.get(a) and stored != truth[a]:
                self.fail('dependency-written-wrong', seq, target=target,
                          dependency=a, stored=stored, fresh_twin=truth[a],
                          stored_before=stored_before.get(a))
                return
        # ---- oracle 2: stored value and get -------------------------------
        if out[0] == 'ok' and addr in model.cells:
            stored = canon(model.cells[addr].value)
            if level.get(addr, 0) > 0:
                if stored != out[1]:
                    self.fail('stored-value-not-updated', seq, target=target,
                              returned=out[1], stored=stored)
                    return
                acc[addr] = {_j(out[1])}
            got = outcome_of(ev.get_cell_value, target)
            if level.get(addr, 0) > 0 and got != ['ok', out[1]]:
                self.fail('get-after-eval', seq, target=target,
                          returned=out[1], got=got)
                return
        if out[0] == 'exc' and want[0] == 'exc':
            self.bump('probe:error_outcome_agrees')
        if out[0] == 'ok' and out[1][0] == 'err':
            self.bump('probe:error_valued_result')


def run_case(case):
    fs = SimFS()
    install_fs(fs)
    try:
        return _run_case(case)
    finally:
        uninstall_fs()


def _run_case(case):
    h = History(case).run()
    viol = h.viol
    stats, log = h.stats, h.log
    # oracle 4: name/address equivalence (fault-free histories only)
    has_fault = any(o.get('fault') or o['op'] in ('clock_jump', 'persist',
                                                   'checkpoint', 'recompile')
                    for o in case['ops']) or \
        case['knobs'].get('fail_on') is not None
    if viol is None and case['world']['names'] and not has_fault and any(
            o.get('target') in case['world']['names'] or
            o.get('target') in case['world']['names'].values()
            for o in case['ops']):
        h2 = History(case, respell=True).run()
        stats['probe:respelled_history'] = 1
        stats['sim_steps'] = stats.get('sim_steps', 0) + \
            h2.stats.get('sim_steps', 0)
        a = [e[-1] for e in h.log]
        b = [e[-1] for e in h2.log]
        if h2.viol is not None:
            viol = {'tag': 'respelled:' + h2.viol['tag'],
                    'detail': h2.viol['detail']}
        elif a != b:
            i = next(i for i, (x, y) in enumerate(zip(a, b)) if x != y)
            viol = {'tag': 'name-address-not-equivalent',
                    'detail': {'op': i, 'as_written': h.log[i],
                               'respelled': h2.log[i]}}
    ops = case['ops']
    nontrivial = any(
        o['op'] == 'set' and any(
            p['op'] == 'eval' and case['world']['level'].get(
                case['world']['names'].get(p['target'], p['target']), 0) > 0
            for p in ops[i + 1:])
        for i, o in enumerate(ops))
    sig = '|'.join(h.sig) if nontrivial else None
    return {'viol': viol, 'log': log, 'stats': stats, 'cover': h.cover,
            'sig': sig}


def finding_key(case, viol):
    return viol['tag']


# --------------------------------------------------------------------------
# shrinking
# --------------------------------------------------------------------------

def drop_cell_candidates(case):
    """Cells nobody depends on and no op targets can go."""
    w = case['world']
    used = set()
    for a, ds in w['deps'].items():
        used.update(ds)
    targets = set()
    for op in case['ops']:
        t = op.get('target')
        if t is not None:
            targets.add(w['names'].get(t, t))
    for a in list(w['order']):
        if a in used or a in targets:
            continue
        c = copy.deepcopy(case)
        cw = c['world']
        cw['order'].remove(a)
        for k in ('cells', 'deps', 'level', 'stale', 'ranges_used'):
            cw[k].pop(a, None)
        for n in [n for n, t in cw['names'].items() if t == a]:
            del cw['names'][n]
        yield c


def reducers(case):
    yield from drop_cell_candidates(case)
    w = case['world']
    for a in list(w['stale']):
        c = copy.deepcopy(case)
        del c['world']['stale'][a]
        yield c
    for n in list(w['names']):
        if not any(op.get('target') == n for op in case['ops']) and \
                not any(n in str(f) for f in w['cells'].values()
                        if isinstance(f, str)):
            c = copy.deepcopy(case)
            del c['world']['names'][n]
            yield c
    for i, op in enumerate(case['ops']):
        if op['op'] == 'set' and op['value'] not in (0, 1):
            for v in (0, 1):
                c = copy.deepcopy(case)
                c['ops'][i]['value'] = v
                yield c
        if op.get('ev'):
            c = copy.deepcopy(case)
            c['ops'][i]['ev'] = 0
            yield c
        f = op.get('fault')
        if f and 'frac' in f and f['frac'] > 0.05:
            c = copy.deepcopy(case)
            c['ops'][i]['fault']['frac'] = round(f['frac'] / 2, 3)
            yield c
    k = case['knobs']
    if k.get('n_evaluators', 1) > 1:
        c = copy.deepcopy(case)
        c['knobs']['n_evaluators'] = 1
        yield c
    if k.get('max_empty', 100) != 100:
        c = copy.deepcopy(case)
        c['knobs']['max_empty'] = 100
        yield c
    if k.get('fail_on') is not None:
        c = copy.deepcopy(case)
        c['knobs']['fail_on'] = None
        yield c
    if k.get('decoy'):
        c = copy.deepcopy(case)
        c['knobs']['decoy'] = False
        yield c
    if k.get('provenance', 'compiled') != 'compiled':
        for how in ('compiled', 'extracted', 'restored'):
            if how != k['provenance']:
                c = copy.deepcopy(case)
                c['knobs']['provenance'] = how
                yield c
    for a, v in w['cells'].items():
        if w['level'].get(a, 0) == 0 and v not in (0, 1):
            c = copy.deepcopy(case)
            c['world']['cells'][a] = 1
            yield c
