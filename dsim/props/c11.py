"""C11 - a workbook file loads into a model with the same cells and formulas.

The read-side I/O path under simulation: real openpyxl + zipfile +
io.BufferedReader on top of a simulated raw disk, inside the library's
process-global mock.patch window.  Histories of 1-6 loads of 1-3 generated
workbooks with different ignore lists, interleaved with evaluations on
earlier-loaded models.  Faults: F4 EIO on the k-th raw read, F6 short raw
reads, F1 interrupt inside the load, F9 buffer size / zip layout knobs.
"""
import copy
import random

from .. import worlds, xlsx
from ..canon import outcome_of, canon, dump_model, diff_dumps, name_target
from ..seams import (Stepper, Ambient, SimFS, install_fs, uninstall_fs)

ID = 'C11'
USES_CHILD = True
BUDGET = {
    'quick': {'runs': 1500, 'wall': 400, 'chunk': 25, 'shrink': 250},
    'thorough': {'runs': 150000, 'wall': 2700, 'chunk': 100, 'shrink': 400},
}
RULE = ('each run = 1-3 generated workbooks (1-4 sheets incl. names needing '
        'quotes; every SpreadsheetML storage form; shared-formula blocks 1-D '
        'and 2-D with $ mixes, ranges, cross-sheet refs; defined names for '
        'cells and ranges) rendered by an independent writer with seeded zip '
        'layout, and a history of 1-6 loads with different ignore lists '
        'interleaved with evaluations, with read faults / short reads / '
        'interrupts; non-trivial = a load of a workbook that contains a '
        'formula or a defined name is judged; distinct = different (sheet '
        'count, storage forms present, shared blocks, names, ignore subset, '
        'load order, faults fired) signature')
ASSUMPTIONS = [
    'blank placeholder cells (value \'\'/None, no formula) inside a referenced or named range are not counted against "one cell per stored cell" / "ignored sheets contribute no cells" (build_ranges creates them by design)',
    'a defined name whose target cell is stored nowhere, or lies on an ignored sheet, may be bound or absent',
    'short reads are injected below io.BufferedReader only (regular files never short-read above it)',
    'evaluation differential is against a model built sheet by sheet with read_and_parse_dict from the same contents, so pure formula-semantics defects cancel',
]
SAFETY_STEPS = 5_000_000
CLEANUP = ('openpyxl_WorksheetReader_patch',)


# --------------------------------------------------------------------------
# generation
# --------------------------------------------------------------------------

def subsets(names, rng):
    k = rng.random()
    if k < 0.45:
        return []
    if k < 0.85:
        return rng.sample(names, rng.randint(1, max(1, len(names) - 1)))
    return rng.sample(names, rng.randint(0, len(names))) + \
        (['NoSuchSheet'] if rng.random() < 0.3 else [])


def gen_case(seed, tier='quick'):
    rng = random.Random(seed)
    faulty = rng.random() < 0.4
    nwb = rng.choice([1, 1, 1, 2, 3])
    books = []
    for i in range(nwb):
        wb = xlsx.gen_workbook(rng)
        wb['knobs'] = {'seed': rng.randrange(1 << 30),
                       'stored': rng.random() < 0.3,
                       'shuffle': rng.random() < 0.5,
                       'sst_duplicates': rng.random() < 0.3,
                       'always_sst': rng.random() < 0.3,
                       'docprops': rng.random() < 0.3,
                       'dimension': rng.random() < 0.3}
        books.append(wb)
    if nwb > 1 and rng.random() < 0.5:
        # a sibling of the first workbook: same names, same formula texts,
        # the names bound to other cells and other constants
        sib = copy.deepcopy(books[0])
        stored = [(sh['name'], c) for sh in sib['sheets']
                  for c, spec in sh['cells'].items() if spec['form'] == 'n']
        for n, t in sib['names'].items():
            if ':' not in t['ref'] and stored:
                sname, coord = rng.choice(stored)
                t['sheet'], t['ref'] = sname, coord
        for sh in sib['sheets']:
            for spec in sh['cells'].values():
                if spec['form'] == 'n' and isinstance(spec['value'], int):
                    spec['value'] += 500
                    spec['text'] = str(spec['value'])
        books[1] = sib
    ops = []
    nloads = rng.choice([1, 1, 2, 3, 4, 6])
    for _ in range(nloads):
        b = rng.randrange(nwb)
        names = [s['name'] for s in books[b]['sheets']]
        op = {'op': 'load', 'wb': b, 'ignore': subsets(names, rng),
              'via': rng.choice(['path', 'path', 'file', 'two_step',
                                 'shared_archive']),
              'bufsize': rng.choice([16, 64, 512, 4096, 8192])}
        if not op['ignore'] and rng.random() < 0.5:
            op['explicit_ignore'] = True
        if op['via'] == 'two_step' and rng.random() < 0.4:
            op['swap_between'] = rng.choice([-1, rng.randrange(nwb),
                                             rng.randrange(nwb) + 1])
        if ops and rng.random() < 0.2:
            # the ModelCompiler of the previous load is used again
            op['reuse_compiler'] = True
        if ops and rng.random() < (1.0 if tier == 'thorough' else 0.3):
            # not the first load of this process: compare with a load of the
            # same bytes in a process that has never loaded anything
            op['pristine_check'] = True
        if faulty and rng.random() < 0.5:
            k = rng.choice(['eio', 'eio', 'short', 'interrupt', 'open'])
            if k == 'open':
                op['fault'] = {'kind': 'open'}
            elif k == 'short':
                op['fault'] = {'kind': 'short', 'seed': rng.randrange(1 << 30)}
            else:
                op['fault'] = {'kind': k, 'frac': round(rng.random(), 3)}
        ops.append(op)
        if rng.random() < 0.4:
            ops.append({'op': 'eval_old', 'pick': rng.randrange(1 << 16)})
        if nwb > 1 and rng.random() < 0.25:
            # the file at this path is replaced by another workbook; later
            # loads of the path must see the new content
            ops.append({'op': 'rewrite', 'wb': b,
                        'with': rng.choice([k for k in range(nwb) if k != b])})
            ops.append({'op': 'load', 'wb': b, 'ignore': [], 'via': 'path',
                        'bufsize': 8192})
    if nloads > 1 and rng.random() < 0.6:
        # reload the first workbook with its first ignore list: must be equal
        first = next(o for o in ops if o['op'] == 'load')
        ops.append({'op': 'load', 'wb': first['wb'],
                    'ignore': list(first['ignore']), 'via': 'path',
                    'bufsize': 8192})
    return {'property': ID, 'seed': seed, 'knobs': {}, 'books': books,
            'ops': ops}


# --------------------------------------------------------------------------
# oracles
# --------------------------------------------------------------------------

def direct_model(wb, ignore):
    """The model built directly from the same cell contents: cells and
    formulas are created with the public XLCell / XLFormula constructors and
    then bound with the same public compile steps, in the same order, that
    ModelCompiler.parse_archive uses (names, links, ranges, code)."""
    from xlcalculator import ModelCompiler, xltypes
    mc = ModelCompiler()
    for sheet, d in xlsx.direct_contents(wb, ignore):
        for a, (kind, v) in d.items():
            if kind == 'f':
                f = xltypes.XLFormula(v, sheet)
                mc.model.cells[a] = xltypes.XLCell(a, None, formula=f)
                mc.model.formulae[a] = f
            else:
                mc.model.cells[a] = xltypes.XLCell(a, v)
    mc.defined_names = {n: xlsx.name_target_text(t)
                        for n, t in wb['names'].items()}
    mc.build_defined_names()
    mc.link_cells_to_defined_names()
    mc.build_ranges()
    mc.model.build_code()
    return mc.model


def judge_model(wb, ignore, model, bump):
    """Oracles 1-4 for one loaded model; returns a violation or None."""
    from xlcalculator import Evaluator, xltypes
    exp = xlsx.expected_cells(wb, ignore)
    cells = getattr(model, 'cells', None)
    if not isinstance(cells, dict):
        return {'tag': 'garbage-model', 'detail': {'cells': repr(cells)[:80]}}
    # 1. cell set
    missing = sorted(set(exp) - set(cells))
    if missing:
        return {'tag': 'stored-cell-missing',
                'detail': {'missing': missing[:8], 'ignore': ignore}}
    allowed_blank = xlsx.range_member_addresses(wb, ignore)
    ignored_prefixes = tuple(f'{s}!' for s in ignore)
    for a in sorted(set(cells) - set(exp)):
        c = cells[a]
        blank = isinstance(c, xltypes.XLCell) and c.formula is None and \
            c.value in ('', None)
        if not blank:
            tag = 'ignored-sheet-contributes-cells' \
                if a.startswith(ignored_prefixes) else 'extra-cell'
            return {'tag': tag, 'detail': {
                'address': a, 'value': canon(getattr(c, 'value', None)),
                'ignore': ignore}}
        if a not in allowed_blank:
            return {'tag': 'extra-cell', 'detail': {
                'address': a, 'why': 'blank cell outside every referenced '
                'or named range', 'ignore': ignore}}
        bump('probe:blank_placeholder_in_range')
    # 2. per cell: constant with type / formula text / cached value
    for a, e in exp.items():
        c = cells[a]
        if not isinstance(c, xltypes.XLCell):
            return {'tag': 'garbage-model', 'detail': {'address': a}}
        ft = c.formula.formula if isinstance(
            c.formula, xltypes.XLFormula) else c.formula
        if ft != e['formula']:
            return {'tag': 'formula-text-differs', 'detail': {
                'address': a, 'loaded': ft, 'expected': e['formula']}}
        want = canon(worlds.dec(e['value']))
        if canon(c.value) != want:
            return {'tag': 'cached-value-differs' if e['formula']
                    else 'constant-differs',
                    'detail': {'address': a, 'loaded': canon(c.value),
                               'expected': want}}
        got = outcome_of(model.get_cell_value, a)
        if got != ['ok', want]:
            return {'tag': 'get-before-evaluation-differs', 'detail': {
                'address': a, 'got': got, 'expected': want}}
        if c.address != a:
            return {'tag': 'cell-address-differs', 'detail': {
                'key': a, 'address': c.address}}
    # 3. defined names
    dn = getattr(model, 'defined_names', {})
    for n, t in wb['names'].items():
        on_ignored = t['sheet'] in ignore
        if ':' not in t['ref']:
            target = f'{t["sheet"]}!{t["ref"]}'
            if target not in exp:
                if n in dn and name_target(dn[n]) != ['cell', target]:
                    return {'tag': 'name-bound-wrongly', 'detail': {
                        'name': n, 'bound': name_target(dn[n]),
                        'expected': ['cell', target]}}
                continue        # empty / ignored target: bound or absent
            if n not in dn:
                return {'tag': 'name-not-bound', 'detail': {
                    'name': n, 'target': xlsx.name_target_text(t),
                    'expected_cell': target}}
            if name_target(dn[n]) != ['cell', target]:
                return {'tag': 'name-bound-wrongly', 'detail': {
                    'name': n, 'bound': name_target(dn[n]),
                    'expected': ['cell', target]}}
            bump('probe:cell_name_bound')
        else:
            matrix = [[f'{t["sheet"]}!{a.split("!", 1)[1]}' for a in row]
                      for row in worlds.range_members('X!' + t['ref'])]
            if n not in dn:
                if on_ignored:
                    continue
                return {'tag': 'name-not-bound', 'detail': {
                    'name': n, 'target': xlsx.name_target_text(t)}}
            if name_target(dn[n]) != ['range', matrix]:
                return {'tag': 'name-bound-wrongly', 'detail': {
                    'name': n, 'bound': name_target(dn[n]),
                    'expected': ['range', matrix]}}
            bump('probe:range_name_bound')
    for n in dn:
        if n not in wb['names']:
            return {'tag': 'extra-name', 'detail': {'name': n}}
    # 4. evaluation differential against the directly built model
    try:
        direct = direct_model(wb, ignore)
    except Exception as e:
        # the direct construction itself is not what this property is about
        bump('direct_model_unbuildable')
        return None
    ev_l, ev_d = Evaluator(model), Evaluator(direct)
    for a in sorted(exp):
        st = Stepper(max_steps=SAFETY_STEPS)
        with st:
            ol = outcome_of(ev_l.evaluate, a)
            od = outcome_of(ev_d.evaluate, a)
        bump('sim_steps', st.steps)
        if ol != od:
            return {'tag': 'evaluates-differently-from-direct-model',
                    'detail': {'address': a, 'loaded': ol, 'direct': od,
                               'formula': exp[a]['formula']}}
    return None


# --------------------------------------------------------------------------
# execution
# --------------------------------------------------------------------------

def run_case(case):
    fs = SimFS()
    install_fs(fs)
    try:
        with Ambient(case['seed']):
            return _run(case, fs)
    finally:
        uninstall_fs()


def _patch_state():
    import openpyxl
    import openpyxl.reader.excel
    import openpyxl.worksheet._reader
    return (openpyxl.worksheet._reader.WorksheetReader,
            openpyxl.reader.excel.WorksheetReader)


def _run(case, fs):
    from xlcalculator import Evaluator, ModelCompiler
    books = case['books']
    log, stats, sig = [], {'ops': 0}, []
    viol = None
    judged = 0

    def bump(k, n=1):
        stats[k] = stats.get(k, 0) + n

    for i, wb in enumerate(books):
        fs.put(f'/simfs/book{i}.xlsx', xlsx.render_xlsx(wb, wb.get('knobs')))
    pristine = _patch_state()
    loaded = []         # (wb index, ignore, model, dump)
    first_dump = {}
    content = {}        # path index -> workbook whose bytes it holds now
    last_mc = [None]
    keep_ev = {}

    for seq, op in enumerate(case['ops']):
        if viol is not None:
            break
        bump('ops')
        if op['op'] == 'eval_old':
            if loaded:
                b, ign, m, _ = loaded[op['pick'] % len(loaded)]
                addrs = sorted(m.cells)
                if addrs:
                    a = addrs[op['pick'] % len(addrs)]
                    out = outcome_of(Evaluator(m).evaluate, a)
                    log.append([seq, 'eval_old', b, a, out])
                    sig.append('e')
            continue
        b = op['wb'] % len(books)
        if op['op'] == 'rewrite':
            k = op['with'] % len(books)
            content[b] = k
            fs.put(f'/simfs/book{b}.xlsx',
                   xlsx.render_xlsx(books[k], books[k].get('knobs')))
            first_dump = {key: v for key, v in first_dump.items()
                          if key[0] != b}
            bump('probe:file_rewritten_between_loads')
            log.append([seq, 'rewrite', b, k])
            continue
        wb = books[content.get(b, b)]
        ignore = [x for x in op['ignore']]
        path = f'/simfs/book{b}.xlsx'
        fault = op.get('fault')
        rf, short, at, of = None, None, None, None
        if fault is not None:
            if fault['kind'] == 'open':
                # (when the harness opens the file itself there is nothing
                # of the library's to fail)
                of = {'at': 1} if op.get('via') != 'file' else None
            elif fault['kind'] == 'short':
                short = fault['seed']
            else:
                # measure a fault-free load of the same file first
                fs.reset_op(bufsize=op.get('bufsize'))
                st = Stepper(no_interrupt_in=CLEANUP)
                with st:
                    outcome_of(ModelCompiler().read_and_parse_archive, path,
                               ignore_sheets=list(ignore))
                if fault['kind'] == 'eio':
                    rf = {'kind': 'eio',
                          'at': max(1, int(fs.raw_reads * fault['frac']))}
                else:
                    at = max(1, int(st.steps * fault['frac']))
        fs.reset_op(bufsize=op.get('bufsize'), read_fault=rf,
                    short_seed=short, open_fault=of)
        if op.get('reuse_compiler') and last_mc[0] is not None:
            mc = last_mc[0]
            bump('probe:compiler_object_reused')
        else:
            mc = ModelCompiler()
        last_mc[0] = mc
        retried = False
        st = Stepper(interrupt_at=at, no_interrupt_in=CLEANUP)
        # an empty ignore list is passed implicitly (the API's default
        # argument) unless the op says otherwise
        kw = {} if (not ignore and not op.get('explicit_ignore')) \
            else {'ignore_sheets': list(ignore)}
        holder = {}
        if op.get('via') == 'two_step':
            # the documented two-step form: read the archive once, then
            # parse it (possibly again after an interrupted parse)
            def two_step():
                holder['archive'] = mc.read_excel_file(path)
                if op.get('swap_between') is not None:
                    # the file changes on disk after it has been read: the
                    # model is the one of the archive that was read
                    holder['saved'] = fs.get(path)
                    kk = op['swap_between']
                    fs.put(path, b'PK\x05\x06 not a workbook any more'
                           if kk < 0 else xlsx.render_xlsx(
                               books[kk % len(books)],
                               books[kk % len(books)].get('knobs')))
                    bump('fault:file_replaced_between_read_and_parse')
                    bump('faults_fired')
                mc.parse_archive(holder['archive'], **kw)
                mc.model.build_code()
                return mc.model
            try:
                with st:
                    out = outcome_of(two_step)
            finally:
                if 'saved' in holder:
                    fs.put(path, holder['saved'])
            if out == ['interrupt'] and 'archive' in holder:
                bump('probe:parse_retried_on_same_archive')
                mc = ModelCompiler()

                def again():
                    mc.parse_archive(holder['archive'], **kw)
                    mc.model.build_code()
                    return mc.model
                out = outcome_of(again)
                retried = True
        elif op.get('via') == 'shared_archive':
            # one archive read once, parsed by two compilers: two models
            def shared():
                holder['archive'] = mc.read_excel_file(path)
                holder['other'] = ModelCompiler()
                holder['other'].parse_archive(holder['archive'], **kw)
                holder['other'].model.build_code()
                mc.parse_archive(holder['archive'], **kw)
                mc.model.build_code()
                return mc.model
            with st:
                out = outcome_of(shared)
        elif op.get('via') == 'file':
            fobj = open(path, 'rb')
            with st:
                out = outcome_of(mc.read_and_parse_archive, fobj, **kw)
            fobj.close()
        else:
            with st:
                out = outcome_of(mc.read_and_parse_archive, path, **kw)
        bump('sim_steps', st.steps)
        fired = list(fs.op_fired)
        if st.fired == 'interrupt':
            fired.append('interrupt_in_load')
        for f in fired:
            bump(f'fault:{f}')
            bump('faults_fired')
        if fault is not None and not fired:
            bump(f'fault_not_fired:{fault["kind"]}')
        raw_reads = fs.raw_reads
        fs.reset_op()
        log.append([seq, 'load', b, sorted(ignore), op.get('via'), fired,
                    out[0], raw_reads])
        forms = sorted({c['form'] for s in wb['sheets']
                        for c in s['cells'].values()})
        sig.append(f'L{len(wb["sheets"])}{len(ignore)}'
                   f'{"".join(f[0] for f in forms)}'
                   f'{int(any("shared" in c for s in wb["sheets"] for c in s["cells"].values()))}'
                   f'{len(wb["names"])}{fired[0][:5] if fired else ""}')
        # the process-global patch must be gone whatever happened
        if _patch_state() != pristine:
            viol = {'tag': 'openpyxl-patch-not-restored',
                    'detail': {'op': seq, 'faults': fired, 'outcome': out}}
            break
        hard = [f for f in fired if f in ('read_eio', 'interrupt_in_load',
                                          'open_error')]
        if retried:
            # the retry itself ran fault-free on an archive that was read
            # completely: it must be right
            hard = [f for f in hard if f != 'interrupt_in_load']
        if out[0] != 'ok':
            if hard:
                bump('probe:load_failed_on_injected_fault')
                continue        # may fail, never wrong data
            msg = ''
            try:
                ModelCompiler().read_and_parse_archive(
                    path, ignore_sheets=list(ignore))
            except BaseException as e:      # noqa
                msg = f'{type(e).__name__}: {str(e)[:160]}'
            viol = {'tag': 'load-raised',
                    'detail': {'op': seq, 'wb': b, 'ignore': ignore,
                               'outcome': out, 'message': msg,
                               'names': {n: xlsx.name_target_text(t)
                                         for n, t in wb['names'].items()}}}
            break
        if ignore and 'short_read' in fired:
            bump('probe:short_reads_absorbed')
        model = mc.model
        judged += 1
        v = judge_model(wb, ignore, model, bump)
        if v is not None:
            v['detail']['op'] = seq
            v['detail']['wb'] = b
            viol = v
            break
        bump('probe:load_judged_equal')
        if 'other' in holder and not fired:
            # the sibling model parsed from the same archive object must be
            # independent: change and evaluate it, this one must not move
            other = holder['other'].model
            mine_before = dump_model(model)
            consts = [a for a, c in sorted(other.cells.items())
                      if c.formula is None][:3]
            for a in consts:
                outcome_of(other.set_cell_value, a, 987654)
            evo = Evaluator(other)
            for a in sorted(other.cells):
                outcome_of(evo.evaluate, a)
            bump('probe:two_models_from_one_archive')
            if dump_model(model) != mine_before:
                viol = {'tag': 'models-from-one-archive-share-state',
                        'detail': {'op': seq, 'wb': b, 'diff': diff_dumps(
                            mine_before, dump_model(model))}}
                break
        if op.get('reuse_compiler') and id(mc) in keep_ev and not fired:
            # an evaluator created on this compiler's model before the
            # compiler was used for another workbook
            old_ev = keep_ev[id(mc)][1]
            fresh = Evaluator(model)
            for n in sorted(getattr(model, 'defined_names', {})):
                t = name_target(model.defined_names[n])
                if t[0] != 'cell':
                    continue
                o1 = outcome_of(old_ev.evaluate, n)
                o2 = outcome_of(fresh.evaluate, t[1])
                bump('probe:name_through_long_lived_evaluator')
                if o1 != o2:
                    viol = {'tag': 'long-lived-evaluator-sees-old-workbook',
                            'detail': {'op': seq, 'wb': b, 'name': n,
                                       'via_old_evaluator': o1,
                                       'fresh_by_address': o2}}
                    break
            if viol is not None:
                break
        kev = Evaluator(mc.model)
        for n in sorted(getattr(mc.model, 'defined_names', {})):
            outcome_of(kev.evaluate, n)      # it has used these names
        for n in ('rate', 'total_x', 'nm_a', 'Input1'):
            outcome_of(kev.evaluate, n)      # ... and asked for absent ones
        keep_ev[id(mc)] = (mc, kev)
        if hard:
            bump('probe:load_survived_injected_fault')
        # 6. loads are independent of what was loaded before
        key = (b, tuple(sorted(ignore)))
        d = dump_model(mc.model)
        if key in first_dump:
            bump('probe:reload_compared')
            if d != first_dump[key]:
                viol = {'tag': 'reload-differs-from-first-load',
                        'detail': {'op': seq, 'wb': b, 'ignore': ignore,
                                   'diff': diff_dumps(first_dump[key], d)}}
                break
        else:
            first_dump[key] = d
        if op.get('pristine_check') and not fired:
            import json as _json
            from ..restorer import Child
            from .c12 import evaluate_all
            resp = Child.get().load_xlsx(path, fs.get(path), ignore,
                                         seed=case['seed'])
            bump('probe:compared_with_pristine_process_load')
            mine = _json.loads(_json.dumps(
                {'dump': d, 'values': evaluate_all(mc.model)}, default=str))
            if not resp.get('ok'):
                viol = {'tag': 'pristine-process-load-raised',
                        'detail': {'op': seq, 'wb': b, 'response': resp}}
                break
            theirs = {'dump': resp['dump'], 'values': resp['values']}
            for side in (mine, theirs):
                # stored values: ours were taken after evaluation
                for ent in side['dump'].get('cells', {}).values():
                    if isinstance(ent, dict):
                        ent.pop('v', None)
            if mine != theirs:
                viol = {'tag': 'load-depends-on-earlier-loads',
                        'detail': {'op': seq, 'wb': b, 'ignore': ignore,
                                   'diff': diff_dumps(theirs, mine)}}
                break
        if ignore:
            bump('probe:load_with_ignored_sheets')
        if any(xlsx.needs_quotes(s['name']) for s in wb['sheets']):
            bump('probe:sheet_name_needs_quotes')
        loaded.append((b, ignore, mc.model, d))
    nontrivial = judged and any(
        wb['names'] or any(c['form'] == 'f' for s in wb['sheets']
                           for c in s['cells'].values())
        for wb in books)
    return {'viol': viol, 'log': log, 'stats': stats, 'cover': [],
            'sig': '|'.join(sig) if nontrivial else None}


def finding_key(case, viol):
    return viol['tag']


# --------------------------------------------------------------------------
# shrinking
# --------------------------------------------------------------------------

def reducers(case):
    books = case['books']
    used = {op['wb'] % len(books) for op in case['ops'] if op['op'] == 'load'}
    for b, wb in enumerate(books):
        if b not in used:
            continue
        # drop a sheet (if nothing names it), a name, a cell
        for i, sh in enumerate(wb['sheets']):
            if len(wb['sheets']) > 1:
                c = copy.deepcopy(case)
                del c['books'][b]['sheets'][i]
                c['books'][b]['names'] = {
                    n: t for n, t in wb['names'].items()
                    if t['sheet'] != sh['name']}
                for op in c['ops']:
                    if op['op'] == 'load' and op['wb'] % len(books) == b:
                        op['ignore'] = [x for x in op['ignore']
                                        if x != sh['name']]
                yield c
        for n in list(wb['names']):
            c = copy.deepcopy(case)
            del c['books'][b]['names'][n]
            yield c
        for i, sh in enumerate(wb['sheets']):
            for coord, spec in list(sh['cells'].items()):
                s = spec.get('shared')
                if s is not None and s['master']:
                    continue
                c = copy.deepcopy(case)
                del c['books'][b]['sheets'][i]['cells'][coord]
                yield c
            for coord, spec in list(sh['cells'].items()):
                s = spec.get('shared')
                if s is not None and s['master']:
                    # drop a whole shared block
                    c = copy.deepcopy(case)
                    cells = c['books'][b]['sheets'][i]['cells']
                    for k in [k for k, v in cells.items()
                              if v.get('shared', {}).get('si') == s['si']]:
                        del cells[k]
                    yield c
        for k, v in wb.get('knobs', {}).items():
            if v and k != 'seed':
                c = copy.deepcopy(case)
                c['books'][b]['knobs'][k] = False
                yield c
    for i, op in enumerate(case['ops']):
        if op['op'] == 'load':
            if op['ignore']:
                for j in range(len(op['ignore'])):
                    c = copy.deepcopy(case)
                    del c['ops'][i]['ignore'][j]
                    yield c
            if op.get('via') == 'file':
                c = copy.deepcopy(case)
                c['ops'][i]['via'] = 'path'
                yield c
            if op.get('bufsize') != 8192:
                c = copy.deepcopy(case)
                c['ops'][i]['bufsize'] = 8192
                yield c
