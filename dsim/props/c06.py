"""C06 - cycles are reported promptly, acyclic sharing is never flagged,
failure cost is bounded.

Simulated resource = the Stepper's deterministic step clock, depth gauge and
in-flight message gauge (no wall clock, no real memory exhaustion).  Faults:
F1 interrupt inside an evaluation, F2 transient user-function failure, F3
persistent failing node at every chain depth.
"""
import random

from .. import worlds
from ..canon import outcome_of, canon
from ..seams import Stepper, Ambient, UserFuncs

ID = 'C06'
BUDGET = {
    'quick': {'runs': 3000, 'wall': 120, 'chunk': 50, 'shrink': 300},
    'thorough': {'runs': 200000, 'wall': 1500, 'chunk': 250, 'shrink': 600},
}
RULE = ('each run = one seeded dependency digraph (self-loop / cycle of every '
        'length, entry point and closing construct / diamonds and repeated '
        'references / failing node at every chain depth / both) rendered to '
        'formulas, then a history of evaluations under the step clock with '
        'optional interrupt and transient faults; non-trivial = the entry '
        'cell reaches at least one formula cell; distinct = different '
        '(class, size, cycle length, entry role, closing constructs, fail '
        'kind+depth, fault fired) signature')
ASSUMPTIONS = [
    'step clock counts Python line events in xlcalculator/ frames, not seconds',
    'budgets are polynomials with slack: depth<=24(|R|+2), steps<=5000+300(|R|+range cells)^2, message<=min(16(L+2)^3, 256(L+2)^2)+4*text+512',
    'IF(TRUE,x,y): a cycle or failure reachable only through the unselected branch may or may not be reported (both accepted)',
    'an acyclic chain deeper than the interpreter stack allows (deep_chain: 130-700 cells, or evaluate() called from 400-930 frames down) may fail; the failure must not be reported as a cycle',
]
PROBE_CELLS = {'Sheet1!ZZ1': 5, 'Sheet1!ZZ2': '=ZZ1+1'}
SAFETY_STEPS = 3_000_000
# secondary gauges for time spent where the step clock cannot see (C code:
# regular expressions, pandas): CPU seconds of one evaluate(), and wall
# seconds of a whole case (kernel: a case that hangs is a violation here)
CPU_BOUND = 12.0
CASE_TIMEOUT = 240
TIMEOUT_IS_VIOLATION = 'budget:wall'

CONSTRUCTS = ('ref', 'rep', 'range', 'name', 'if', 'guard')


# --------------------------------------------------------------------------
# generation
# --------------------------------------------------------------------------

SHEET_PAIRS = [('Sheet1', 'S2'), ('Sheet1', 'S2'), ('Sales', 'NetSales'),
               ('NetSales', 'Sales'), ('Data', 'MetaData'), ('XS2', 'S2'),
               ('A', 'AA'), ('Sheet1', 'Sheet11')]


def _layout(n, W, split, sheets=('Sheet1', 'S2')):
    """node index -> address; nodes >= split live on the second sheet."""
    out = []
    for i in range(n):
        if i < split:
            out.append(worlds.addr(sheets[0], i % W, i // W))
        else:
            j = i - split
            out.append(worlds.addr(sheets[1], j % W, j // W))
    return out


def _rect_for(rng, i_target, n, W, split, allowed):
    """A rectangle on the target's sheet, fully inside existing nodes, that
    contains node i_target and only nodes for which allowed(j) holds."""
    base, cnt = (0, split) if i_target < split else (split, n - split)
    loc = i_target - base
    r0, c0 = divmod(loc, W)
    for _ in range(8):
        r1 = rng.randint(max(0, r0 - 2), r0)
        r2 = rng.randint(r0, r0 + 2)
        c1 = rng.randint(0, c0)
        c2 = rng.randint(c0, W - 1)
        members = []
        ok = True
        for r in range(r1, r2 + 1):
            for c in range(c1, c2 + 1):
                j = r * W + c
                if j >= cnt or not allowed(base + j):
                    ok = False
                    break
                members.append(base + j)
            if not ok:
                break
        if ok:
            return (r1, c1, r2, c2), members
    return (r0, c0, r0, c0), [i_target]


def _mk_term(rng, kind, i, j, ctx, allowed_dead=None):
    """Render dependency i -> j with construct `kind`."""
    A = ctx['addrs']
    if kind == 'rep':
        return {'t': 'rep', 'to': A[j]}
    if kind == 'guard':
        # IF(ISERROR(x), 0, x): same dependency, same value when x is fine
        return {'t': 'guard', 'to': A[j]}
    if kind == 'name':
        name = f'nm_{j}'
        ctx['names'][name] = A[j]
        return {'t': 'name', 'name': name, 'to': A[j]}
    if kind == 'if':
        cands = [d for d in range(ctx['n'])
                 if allowed_dead is None or allowed_dead(d)]
        if cands:
            return {'t': 'if', 'live': A[j], 'dead': A[rng.choice(cands)]}
        return {'t': 'ref', 'to': A[j]}
    if kind == 'range':
        (r1, c1, r2, c2), members = _rect_for(
            rng, j, ctx['n'], ctx['W'], ctx['split'], ctx['allowed'](i))
        sheet = ctx['sheets'][0] if j < ctx['split'] else ctx['sheets'][1]
        a1 = worlds.addr(sheet, c1, r1).split('!')[1]
        a2 = worlds.addr(sheet, c2, r2).split('!')[1]
        return {'t': 'range', 'sheet': sheet, 'ref': f'{a1}:{a2}',
                'members': [A[m] for m in members]}
    return {'t': 'ref', 'to': A[j]}


def gen_fail_ladder(rng, seed):
    """A two-wide ladder d levels deep (2^d re-converging paths in the
    static precedents) whose top cell fails *before* it evaluates anything:
    the failure must be reported without walking the ladder."""
    d = rng.randint(12, 20)
    sheets = ['Sheet1', 'S2']
    addrs = _layout(2 * d, 2, 2 * d, sheets)
    nodes = []
    for i in range(2 * d):
        lvl = i // 2
        terms = []
        if lvl:
            terms = [{'t': 'ref', 'to': addrs[2 * (lvl - 1)]},
                     {'t': 'ref', 'to': addrs[2 * (lvl - 1) + 1]}]
        nodes.append({'a': addrs[i], 'k': rng.randint(0, 9), 'terms': terms,
                      'fail': None})
    top = 2 * d - 1
    nodes[top]['fail'] = rng.choice(['nosuch', 'nosuch', 'boom', 'oserr'])
    nodes[top]['fail_first'] = True
    e = addrs[top]
    world = {'class': 'fail_ladder', 'info': {'class': 'fail_ladder',
             'depth': d, 'entry_index': top,
             'fail_kind': nodes[top]['fail'], 'fail_at': top},
             'nodes': nodes, 'sheets': sheets, 'switches': {}, 'padding': 0,
             'decoy': False, 'evaluator_first': False, 'range_names': {},
             'names': {}, 'qualify': False, 'fail_on': 1}
    ops = [{'op': 'eval', 'target': e},
           {'op': 'eval', 'target': f'{sheets[0]}!ZZ2'},
           {'op': 'eval', 'target': e},
           {'op': 'eval', 'target': addrs[3]}]
    return {'property': ID, 'seed': seed, 'knobs': {}, 'world': world,
            'ops': ops}


def gen_case(seed, tier='quick'):
    rng = random.Random(seed)
    cls = rng.choices(
        ['acyclic', 'chain_ok', 'selfloop', 'cycle', 'longcycle', 'fail',
         'cycle_fail', 'dead_cycle', 'switch_cycle', 'fail_ladder',
         'deep_chain'],
        [24, 8, 8, 26, 4, 15, 5, 3, 6, 3, 2])[0]
    if cls == 'fail_ladder':
        return gen_fail_ladder(rng, seed)
    plain = cls in ('chain_ok', 'longcycle', 'deep_chain')
    if cls == 'deep_chain':
        # an acyclic chain longer than the interpreter's stack allows: the
        # evaluation may fail for lack of stack, it must not call that a
        # cycle
        n = rng.choice([130, 180, 260, 400, 700])
    elif cls == 'chain_ok':
        n = rng.choice([1, 2, 3, 5, 10, 20, 40, 70, 100, rng.randint(1, 100)])
    elif cls == 'longcycle':
        n = rng.randint(17, 200)
    elif cls == 'fail':
        # (long chains: the cost of *reporting* a failure must stay
        # polynomial in the distance it travels)
        n = rng.randint(1, 26) if rng.random() < 0.6 else rng.randint(18, 45)
    else:
        n = rng.randint(1 if cls == 'selfloop' else 2, 16)
    W = 1 if (plain or cls == 'fail' and n > 12) else rng.choice(
        [1, 1, 2, 3, 4, 27, 30])
    if W > 4 and cls not in ('chain_ok', 'longcycle', 'fail', 'deep_chain'):
        # a wide sheet: columns run past Z (AA, AB ...)
        n = max(n, rng.randint(27, 34))
    two = (not plain) and n >= 4 and rng.random() < 0.3
    split = rng.randint(2, n - 1) if two else n
    sheets = list(rng.choice(SHEET_PAIRS))
    if not two and rng.random() < 0.08:
        # a name with a character that means something to string formatting
        sheets[0] = rng.choice(['Plan%', 'Growth%s', '100%d', 'a{b}'])
    addrs = _layout(n, W, split, sheets)
    ctx = {'addrs': addrs, 'names': {}, 'n': n, 'W': W, 'split': split,
           'sheets': sheets}
    deps = {i: [] for i in range(n)}     # i -> [(j, kind)]
    weights = [46, 12, 16, 12, 8, 6] if not plain else [80, 0, 10, 10, 0, 0]
    if cls == 'longcycle':
        # only single-target constructs: the shortest cycle really is Lc
        weights = [78, 10, 0, 12, 0, 0]
    if W > 4 and not plain and cls == 'acyclic':
        # wide sheets: more ranges (columns A..Z next to AA, AB ...); only
        # where an expensive walk can be cut short and still be judged
        weights = [30, 10, 40, 10, 5, 5]
    if cls == 'deep_chain':
        # one precedent per cell and mentioned once: the evaluator walks
        # every path again, anything wider costs exponential time
        weights = [88, 0, 0, 12, 0, 0]

    def kind():
        return rng.choices(CONSTRUCTS, weights)[0]

    pure_links = False
    link_heavy = rng.random() < 0.15       # mostly bare references
    if link_heavy and cls != 'deep_chain':
        weights = [90, 2, 2, 4, 2, 0]
    lower = lambda i: (lambda j: j < i)          # noqa: E731
    anyj = lambda i: (lambda j: True)            # noqa: E731
    ctx['allowed'] = lower
    info = {'class': cls}

    if cls in ('acyclic', 'selfloop', 'dead_cycle', 'switch_cycle'):
        depth = [0] * n
        for i in range(1, n):
            k = rng.choice([1, 1, 2, 2, 3])
            cands = [j for j in range(i) if depth[j] < 6]
            near = [j for j in cands if j >= i - 3]
            for _ in range(k):
                j = rng.choice(near if near and rng.random() < 0.6 else cands)
                deps[i].append((j, kind()))
            depth[i] = 1 + max(depth[j] for j, _ in deps[i])
    elif cls in ('chain_ok', 'fail', 'deep_chain'):
        for i in range(1, n):
            deps[i].append((i - 1, kind()))
            if not plain and n <= 12 and i >= 2 and rng.random() < 0.2:
                deps[i].append((rng.randrange(i - 1), kind()))
    else:   # cycle, longcycle, cycle_fail
        Lc = rng.randint(2, n) if cls != 'longcycle' else rng.randint(
            max(2, n // 2), n)
        if cls == 'cycle' and rng.random() < 0.1 and n >= 3:
            # nothing but pass-through cells (=B1): a loop of links entered
            # through a tail of links
            pure_links = True
            weights = [100, 0, 0, 0, 0, 0]
            Lc = rng.randint(2, n - 1)
        info['cycle_len'] = Lc
        # nodes 0..Lc-1 form the cycle i -> i+1 -> ... -> 0; nodes >= Lc are
        # tails leading into it or acyclic leaves
        for i in range(Lc):
            deps[i].append(((i + 1) % Lc, kind()))
        leaves = []
        for i in range(Lc, n):
            r = rng.random() if not pure_links else 0.0
            if r < 0.5:      # tail: depends on a cycle node or earlier tail
                deps[i].append((rng.randrange(i), kind()))
            else:            # leaf constant used by some cycle/tail node
                leaves.append(i)
                user = rng.randrange(Lc)
                deps[user].append((i, rng.choice(['ref', 'rep', 'name'])))
        ctx['allowed'] = anyj

    # render terms -------------------------------------------------------
    nodes = []
    for i in range(n):
        terms = []
        for j, kd in deps[i]:
            if cls in ('acyclic', 'chain_ok', 'fail', 'selfloop',
                       'dead_cycle', 'switch_cycle', 'deep_chain'):
                dead_ok = (lambda d, i=i: d < i)
            else:
                dead_ok = None
            terms.append(_mk_term(rng, kd, i, j, ctx, dead_ok))
        rng.shuffle(terms)
        nodes.append({'a': addrs[i], 'k': rng.randint(0, 9), 'terms': terms,
                      'fail': None})
        if link_heavy and rng.random() < 0.7 or rng.random() < 0.1 \
                or pure_links:
            nodes[-1]['link'] = True

    if cls == 'selfloop':
        i = rng.randrange(n)
        kd = kind()
        ctx['allowed'] = anyj
        t = _mk_term(rng, kd, i, i, ctx, None)
        if t['t'] == 'if' and rng.random() < 0.5:
            t = {'t': 'ref', 'to': addrs[i]}
        nodes[i]['terms'].insert(rng.randint(0, len(nodes[i]['terms'])), t)
        info['loop_at'] = addrs[i]
    if cls == 'dead_cycle':
        i = rng.randrange(n)
        j = rng.randrange(i, n)          # dead edge upward or to itself
        live = rng.randrange(i) if i else None
        if live is None:
            nodes[i]['terms'].append(
                {'t': 'if', 'live': None, 'dead': addrs[j]})
        else:
            nodes[i]['terms'].append(
                {'t': 'if', 'live': addrs[live], 'dead': addrs[j]})
    if cls in ('acyclic', 'cycle', 'selfloop', 'cycle_fail') and \
            rng.random() < 0.2:
        # a cell whose value is an Excel error (#DIV/0!): not a failure, but
        # every sum it takes part in becomes that error value
        nodes[rng.randrange(n)]['errval'] = True
    switches = {}
    if cls == 'switch_cycle':
        # IF(V1>0, <edge that closes a cycle>, <harmless>) - the cycle exists
        # only while the input V1 is positive
        sw = f'{sheets[0]}!ZY1'
        switches[sw] = 0
        i = rng.randrange(n)
        j = rng.randrange(i, n)          # upward or to itself
        low = rng.randrange(i) if i else None
        nodes[i]['terms'].append(
            {'t': 'ifk', 'k': sw, 'then': addrs[j],
             'else': addrs[low] if low is not None else None})
        info['switch_at'] = addrs[i]
    if cls in ('fail', 'cycle_fail'):
        d = rng.randrange(n)
        fk = rng.choice(['nosuch', 'nosuch', 'boom', 'flaky', 'flaky',
                         'oserr', 'keyerr', 'valerr', 'rterr', 'timeout'])
        if cls == 'cycle_fail' and fk == 'flaky':
            fk = 'boom'
        nodes[d]['fail'] = fk
        info['fail_at'] = d
        info['fail_kind'] = fk

    # entry -----------------------------------------------------------------
    if cls == 'switch_cycle':
        # an entry that reaches the switch node
        entry = rng.choice([k for k in range(n) if k >= i] or [i])
    elif cls in ('acyclic', 'chain_ok', 'fail', 'dead_cycle', 'deep_chain'):
        entry = n - 1 if rng.random() < 0.7 else rng.randrange(n)
    elif cls == 'selfloop':
        entry = rng.randrange(n)
    else:
        entry = rng.randrange(n)
    if pure_links:
        entry = rng.randrange(info['cycle_len'], n)
    info['entry_index'] = entry

    # unrelated formulas (model size matters to some detection schemes)
    padding = rng.choice([0] * 16 + [15, 40, 60] + [300 if n < 30 else 0])
    # a defined name over a block of nodes (every member gets the name as
    # a back-link)
    range_names = {}
    if rng.random() < 0.15 and n >= 2:
        lo = rng.randrange(min(split, n) - 1) if min(split, n) > 1 else 0
        hi = rng.randint(lo + 1, min(split, n) - 1) if min(split, n) > 1 \
            else 0
        if hi > lo:
            r1, r2 = lo // W, hi // W
            a1 = worlds.addr(sheets[0], 0, r1).split('!')[1]
            a2 = worlds.addr(sheets[0], W - 1, r2).split('!')[1]
            range_names['block'] = f'{sheets[0]}!{a1}:{a2}'
    nested = None
    formulas_ = [k for k in range(n) if nodes[k]['terms']]
    if formulas_ and rng.random() < 0.08 and not any(
            nd['fail'] == 'flaky' for nd in nodes):
        # a second evaluation of the same model runs while this cell is
        # being evaluated
        nodes[rng.choice(formulas_)]['pause'] = True
        nested = addrs[rng.randrange(n)]
    world = {'class': cls, 'info': info, 'nodes': nodes, 'sheets': sheets,
             'switches': switches, 'padding': padding,
             'decoy': rng.random() < 0.3,
             'evaluator_first': rng.random() < 0.12,
             'range_names': range_names,
             'names': ctx['names'],
             'qualify': ('loose' if two and rng.random() < 0.3
                         else bool(two or (rng.random() < 0.3 and
                                           sheets[0].isalnum()))),
             'fail_on': 1}
    if world['qualify'] != 'loose' and rng.random() < 0.1 and all(
            sh.isalnum() and sh.isascii() for sh in sheets):
        # the same graph as a workbook file, loaded through the reader
        world['provenance'] = 'xlsx'
        world['calc_pr'] = rng.choice(CALC_PR)
    ops = []
    e = addrs[entry]
    via_name = None
    for nm, a in ctx['names'].items():
        if a == e and rng.random() < 0.5:
            via_name = nm
    first = {'op': 'eval', 'target': via_name or e}
    if nested is not None:
        first['nested'] = nested
    r = rng.random()
    if r < 0.25:
        first['fault'] = {'kind': 'interrupt',
                          'frac': round(rng.uniform(0.02, 1.15), 3)}
    elif cls in ('acyclic', 'chain_ok') and nested is None and \
            rng.random() < 0.08:
        # little stack left: the application calls evaluate() from deep
        # inside its own recursion
        first['stack'] = rng.choice([400, 700, 850, 900, 930])
    ops.append(first)
    tail = [{'op': 'eval', 'target': f'{sheets[0]}!ZZ2'},
            {'op': 'eval', 'target': e}]
    if rng.random() < 0.5:
        tail.append({'op': 'eval', 'target': addrs[rng.randrange(n)],
                     'new_evaluator': rng.random() < 0.5})
    if rng.random() < 0.3:
        rng.shuffle(tail)
    ops.extend(tail)
    if switches:
        sw = next(iter(switches))
        def maybe_aborted():
            # an evaluation cut short right before the input changes
            if rng.random() < 0.5:
                return [{'op': 'eval', 'target': e, 'fault': {
                    'kind': 'interrupt',
                    'frac': round(rng.uniform(0.05, 1.0), 3)}}]
            return []
        ops.extend(maybe_aborted() +
                   [{'op': 'set', 'target': sw, 'value': 1},
                    {'op': 'eval', 'target': e},
                    {'op': 'eval', 'target': f'{sheets[0]}!ZZ2'}] +
                   maybe_aborted() +
                   [{'op': 'set', 'target': sw, 'value': 0},
                    {'op': 'eval', 'target': e}])
    return {'property': ID, 'seed': seed, 'knobs': {}, 'world': world,
            'ops': ops}


# --------------------------------------------------------------------------
# rendering + abstract graph
# --------------------------------------------------------------------------

def _ref(frm_sheet, to_addr, qualify, default='Sheet1'):
    sheet, a = to_addr.split('!')
    if qualify == 'loose':
        # sheet-relative single references on every sheet
        return a if sheet == frm_sheet else to_addr
    if sheet == frm_sheet == default and not qualify:
        return a
    return to_addr


def rng_first(nd):
    # deterministic choice of the error's position from the node itself
    return (nd['k'] + len(nd['terms'])) % 2 == 0


def probe_cells(world):
    s0 = world.get('sheets', ['Sheet1'])[0]
    return {f'{s0}!ZZ1': 5, f'{s0}!ZZ2': '=ZZ1+1'}


def render(world):
    cells = probe_cells(world)
    for a, v in world.get('switches', {}).items():
        cells[a] = v
    for k in range(world.get('padding', 0)):
        cells[f'Pad!A{k + 1}'] = f'=1+{k}'
    q = world.get('qualify', False)
    s0 = world.get('sheets', ['Sheet1'])[0]
    for nd in world['nodes']:
        sheet = nd['a'].split('!')[0]
        parts = [str(nd['k'])]
        for t in nd['terms']:
            k = t['t']
            if k == 'ref':
                parts.append(_ref(sheet, t['to'], q, s0))
            elif k == 'rep':
                r = _ref(sheet, t['to'], q, s0)
                parts.append(f'({r}+{r})')
            elif k == 'guard':
                r = _ref(sheet, t['to'], q, s0)
                parts.append(f'IF(ISERROR({r}),0,{r})')
            elif k == 'name':
                parts.append(t['name'])
            elif k == 'range':
                rr = t['ref'] if (t['sheet'] == sheet == s0 and
                                  (not q or q == 'loose')) \
                    else f"{t['sheet']}!{t['ref']}"
                parts.append(f'SUM({rr})')
            elif k == 'ifk':
                th = _ref(sheet, t['then'], q, s0)
                el = _ref(sheet, t['else'], q, s0) if t['else'] else '0'
                parts.append(f"IF({_ref(sheet, t['k'], q, s0)}>0,{th},{el})")
            elif k == 'if':
                live = _ref(sheet, t['live'], q, s0) if t['live'] else '1'
                parts.append(
                    f"IF(TRUE,{live},{_ref(sheet, t['dead'], q, s0)})")
        body = '+'.join(parts)
        if nd.get('fail_first') and nd['fail'] not in (None, 'nosuch',
                                                       'flaky'):
            fn = 'BOOM()' if nd['fail'] == 'boom' \
                else f"FAIL_{nd['fail'].upper()}()"
            body = fn + '+' + body
        elif nd['fail'] == 'nosuch':
            body = 'NOSUCH(1)+' + body
        elif nd['fail'] == 'boom':
            body = body + '+BOOM()'
        elif nd['fail'] == 'flaky':
            body = f'FLAKY({body})'
        elif nd['fail']:
            body = body + f"+FAIL_{nd['fail'].upper()}()"
        if nd.get('errval'):
            body = '1/0+' + body if rng_first(nd) else body + '+1/0'
            parts = parts + ['1/0']
        if nd.get('pause') and len(parts) > 1:
            body = f'PAUSE({body})'
        if nd.get('link') and len(nd['terms']) == 1 and \
                nd['terms'][0]['t'] == 'ref' and nd['fail'] is None \
                and not nd.get('errval') and not nd.get('pause'):
            # a pure link cell: the formula is one bare reference
            body = _ref(sheet, nd['terms'][0]['to'], q, s0)
        if len(parts) == 1 and nd['fail'] is None:
            cells[nd['a']] = nd['k']
        else:
            cells[nd['a']] = '=' + body
    return cells


class Graph:
    def __init__(self, world, switches=None):
        self.switches = dict(world.get('switches', {}))
        if switches:
            self.switches.update(switches)
        self.nodes = {nd['a']: nd for nd in world['nodes']}
        self.live = {}
        self.alle = {}
        for a, nd in self.nodes.items():
            lv, al = [], []
            for t in nd['terms']:
                k = t['t']
                if k in ('ref', 'rep', 'name', 'guard'):
                    lv.append(t['to'])
                elif k == 'range':
                    lv.extend(t['members'])
                elif k == 'if':
                    if t['live']:
                        lv.append(t['live'])
                    al.append(t['dead'])
                elif k == 'ifk':
                    on = self.switches.get(t['k'], 0) > 0
                    hot, cold = (t['then'], t['else']) if on \
                        else (t['else'], t['then'])
                    if hot:
                        lv.append(hot)
                    if cold:
                        al.append(cold)
            self.live[a] = lv
            self.alle[a] = lv + al
        self._val = {}
        self.deep = world.get('class') == 'deep_chain'

    def reach(self, e, edges):
        seen, stack = set(), [e]
        while stack:
            x = stack.pop()
            if x in seen or x not in self.nodes:
                continue
            seen.add(x)
            stack.extend(edges[x])
        return seen

    def has_cycle(self, e, edges):
        color = {}
        stack = [(e, iter(edges.get(e, ())))]
        color[e] = 1
        while stack:
            x, it = stack[-1]
            nxt = next(it, None)
            if nxt is None:
                color[x] = 2
                stack.pop()
                continue
            if nxt not in self.nodes:
                continue
            c = color.get(nxt, 0)
            if c == 1:
                return True
            if c == 0:
                color[nxt] = 1
                stack.append((nxt, iter(edges[nxt])))
        return False

    def value(self, a):
        """Reference fold (only for live-acyclic sub-graphs)."""
        order, seen = [], set()
        stack = [(a, False)]
        while stack:
            x, done = stack.pop()
            if done:
                order.append(x)
                continue
            if x in seen:
                continue
            seen.add(x)
            stack.append((x, True))
            for y in self.live[x]:
                if y not in seen:
                    stack.append((y, False))
        for x in order:
            nd = self.nodes[x]
            v = nd['k']
            if nd.get('link') and len(nd['terms']) == 1 and \
                    nd['terms'][0]['t'] == 'ref' and nd['fail'] is None \
                    and not nd.get('errval') and not nd.get('pause'):
                v = 0
            for t in nd['terms']:
                k = t['t']
                if k in ('ref', 'name', 'guard'):
                    v += self._val[t['to']]
                elif k == 'rep':
                    v += 2 * self._val[t['to']]
                elif k == 'range':
                    v += sum(self._val[m] for m in t['members'])
                elif k == 'if':
                    v += self._val[t['live']] if t['live'] else 1
                elif k == 'ifk':
                    on = self.switches.get(t['k'], 0) > 0
                    hot = t['then'] if on else t['else']
                    v += self._val[hot] if hot else 0
            self._val[x] = v
        return self._val[a]

    def range_cells(self, R):
        return sum(len(t['members']) for a in R for t in self.nodes[a]['terms']
                   if t['t'] == 'range')


def call_deep(depth, fn, *args):
    """fn(*args) from `depth` frames further down the stack."""
    if depth <= 0:
        return fn(*args)
    return call_deep(depth - 1, fn, *args)


def expectation(g, e, cells, flaky_armed, low_stack=False):
    """What the statement allows for evaluate(e)."""
    Rl = g.reach(e, g.live)
    Ra = g.reach(e, g.alle)
    cyc_live = g.has_cycle(e, g.live)
    cyc_all = g.has_cycle(e, g.alle)

    def failing(R):
        out = set()
        for a in R:
            f = g.nodes[a]['fail']
            if (f and f != 'flaky') or (f == 'flaky' and flaky_armed):
                out.add(a)
        return out
    fl, fa = failing(Rl), failing(Ra)
    text = sum(len(str(cells.get(a, ''))) for a in Ra)
    exp = {'R': len(Ra), 'cyc_live': cyc_live, 'cyc_all': cyc_all,
           'fail_live': bool(fl), 'fail_all': bool(fa), 'text': text,
           'range_cells': g.range_cells(Ra)}
    if cyc_live and not fa:
        exp['allow'] = ['cycle']
    elif cyc_live:
        exp['allow'] = ['cycle', 'error']
    elif fl and not cyc_all:
        exp['allow'] = ['error']
    elif fl:
        exp['allow'] = ['error', 'cycle']
    else:
        # live part acyclic and not failing
        exp['allow'] = ['value']
        exp['value'] = g.value(e)
        if any(g.nodes[a].get('errval') for a in Rl):
            exp['value'] = 'errval'
        if cyc_all:
            exp['allow'].append('cycle')
        if fa:
            exp['allow'].append('error')
        if (g.deep or low_stack) and 'error' not in exp['allow']:
            # running out of interpreter stack is a failure of the
            # environment; the statement only forbids calling it a cycle
            exp['allow'].append('error')
            exp['stack_may_run_out'] = True
    return exp


def budgets(exp):
    R, L = exp['R'], exp['R']
    return {'max_depth': 24 * (R + 2),
            'max_steps': 5000 + 300 * (R + exp['range_cells']) ** 2,
            # cubic for short chains, capped by a generous quadratic for long
            # ones (a message that lists the chain at every level is O(L^2))
            'max_msg': min(16 * (L + 2) ** 3, 256 * (L + 2) ** 2)
            + 4 * exp['text'] + 512}


def classify(out):
    if out[0] == 'ok':
        return 'value'
    if out[0] == 'exc':
        return 'cycle' if out[2] else 'error'
    return out[0]


def simple_paths(g, e, cap=400):
    """Number of simple live paths from e (cost proxy for the re-evaluating
    evaluator); stops counting at cap."""
    count = 0
    stack = [(e, frozenset([e]))]
    while stack and count < cap:
        x, path = stack.pop()
        count += 1
        for y in g.live.get(x, ()):
            if y in g.nodes and y not in path:
                stack.append((y, path | {y}))
    return count


# --------------------------------------------------------------------------
# execution
# --------------------------------------------------------------------------

def run_case(case):
    from ..seams import SimFS, install_fs, uninstall_fs
    install_fs(SimFS())
    try:
        return _run_case(case)
    finally:
        uninstall_fs()


CALC_PR = [None, None, 'calcId="191029"', 'iterate="1"',
           'iterate="1" iterateCount="10" iterateDelta="0.01"',
           'calcMode="manual"', 'fullCalcOnLoad="1"', 'calcOnSave="0"']


def model_from_xlsx(cells, names, calc_pr):
    """The same cells and names written as an .xlsx workbook (with its
    workbook-level calculation options) and loaded through the reader."""
    from xlcalculator import ModelCompiler
    from .. import xlsx
    from ..seams import _Installed
    sheets = {}
    for a, v in cells.items():
        sheet, loc = a.split('!')
        if isinstance(v, bool):
            spec = {'form': 'b', 'value': v}
        elif isinstance(v, (int, float)):
            spec = {'form': 'n', 'text': repr(v)}
        elif isinstance(v, str) and v.startswith('='):
            spec = {'form': 'f', 'parts': [v[1:]]}
        elif isinstance(v, str):
            spec = {'form': 'inlineStr', 'value': v}
        else:
            continue
        sheets.setdefault(sheet, {})[loc] = spec
    wb = {'sheets': [{'name': s, 'cells': c} for s, c in sheets.items()],
          'names': {n: {'sheet': t.split('!')[0],
                        'ref': t.split('!')[1].replace('$', '')}
                    for n, t in names.items()},
          'calc_pr': calc_pr}
    fs = _Installed.fs
    fs.put('/simfs/c06.xlsx', xlsx.render_xlsx(wb, {'seed': 1}))
    model = ModelCompiler().read_and_parse_archive('/simfs/c06.xlsx')
    fs.reset_op()
    return model


def _run_case(case):
    from xlcalculator import Evaluator
    world = case['world']
    cells = render(world)
    g = Graph(world)
    names = {nm: worlds.dollar(a) for nm, a in world['names'].items()}
    names.update({nm: worlds.dollar(a)
                  for nm, a in world.get('range_names', {}).items()})
    log, stats, cover = [], {'ops': 0}, []
    viol = None
    sig_faults = []

    def bump(k, n=1):
        stats[k] = stats.get(k, 0) + n

    with Ambient(case['seed']):
        s0 = world.get('sheets', ['Sheet1'])[0]
        probes = probe_cells(world)
        if world.get('decoy') and world['names']:
            # an earlier workbook in this process: same formula texts and
            # names, the names bound to other cells
            addrs_ = [nd['a'] for nd in world['nodes']]
            rot = {nm: worlds.dollar(addrs_[(addrs_.index(a) + 1) %
                                            len(addrs_)])
                   for nm, a in world['names'].items() if a in addrs_}
            try:
                dm = worlds.build_model(cells, rot, default_sheet=s0)
                dev = Evaluator(dm, UserFuncs(None).namespace())
                for a in addrs_[:12]:
                    stq = Stepper(max_steps=200_000, max_depth=900,
                                  max_msg=1_000_000)
                    with stq:
                        outcome_of(dev.evaluate, a)
                bump('probe:decoy_model_first')
            except Exception:
                pass
        loose = world.get('qualify') == 'loose'
        if world.get('provenance') == 'xlsx':
            model = model_from_xlsx(cells, names, world.get('calc_pr'))
            bump('probe:model_loaded_from_xlsx')
            if world.get('calc_pr'):
                bump('probe:workbook_calculation_options_set')
        else:
            model = worlds.build_model(cells, names, default_sheet=s0,
                                       per_sheet=not loose)
        uf = UserFuncs(fail_on=world.get('fail_on'))
        if world.get('evaluator_first'):
            # the evaluator exists before the model gets its contents (the
            # same Model object is filled from a persisted file afterwards)
            from xlcalculator import Model
            from ..seams import _Installed
            model.persist_to_json_file('/simfs/c06.json')
            model = Model()
            ev = Evaluator(model, uf.namespace())
            model.construct_from_json_file('/simfs/c06.json',
                                           build_code=True)
            _Installed.fs.reset_op()
            bump('probe:evaluator_created_before_model_was_loaded')
        else:
            ev = Evaluator(model, uf.namespace())
        for seq, op in enumerate(case['ops']):
            if viol is not None:
                break
            bump('ops')
            target = op['target']
            if op['op'] == 'set':
                out = outcome_of(ev.set_cell_value, target, op['value'])
                g = Graph(world, {target: op['value']})
                world = dict(world, switches=dict(
                    world.get('switches', {}), **{target: op['value']}))
                log.append([seq, 'set', target, op['value'], out[0]])
                bump('probe:dependency_switched_by_input_change')
                continue
            addr = world['names'].get(target, target)
            if op.get('new_evaluator'):
                ev = Evaluator(model, uf.namespace())
            if addr in probes:
                st = Stepper(max_steps=SAFETY_STEPS, max_depth=200)
                with st:
                    out = outcome_of(ev.evaluate, target)
                bump('sim_steps', st.steps)
                log.append([seq, 'eval', target, None, out])
                if out != ['ok', ['Number', 'i', '6']] and \
                        out != ['ok', ['Number', 'f', (6.0).hex()]]:
                    viol = {'tag': 'poisoned',
                            'detail': {'op': seq, 'target': target,
                                       'outcome': out,
                                       'why': 'unrelated acyclic cell no '
                                       'longer evaluates to 6 after a failed '
                                       'or interrupted evaluation'}}
                continue
            if addr not in g.nodes:
                continue
            flaky_armed = uf.fail_on is not None and \
                uf.flaky_calls < uf.fail_on
            exp = expectation(g, addr, cells, flaky_armed,
                              low_stack=bool(op.get('stack')))
            fails_at_once = bool(g.nodes[addr].get('fail_first'))
            if not exp['cyc_live'] and not fails_at_once and \
                    simple_paths(g, addr, 2000 if g.deep else 400) >= (
                        2000 if g.deep else 400):
                # exponential cost of a *successful* re-evaluating walk is
                # not part of this property: the walk is cut short by the
                # step clock and only a cycle report is judged (there is
                # no cycle here, whenever the walk ends)
                bump('skipped_expensive')
                st = Stepper(max_steps=150_000, max_depth=24 * (exp['R'] + 2))
                with st:
                    out = outcome_of(ev.evaluate, target)
                bump('sim_steps', st.steps)
                log.append([seq, 'eval-cut-short', target, None, out[:2],
                            st.steps])
                if classify(out) == 'cycle' and 'cycle' not in exp['allow']:
                    viol = judge(seq, target, out, exp, st, 'cut-short')
                continue
            bud = budgets(exp)
            if exp['allow'] == ['value']:
                bud['max_steps'] = max(bud['max_steps'], SAFETY_STEPS)
            fault = op.get('fault')
            fired = None
            if fault is not None and fault['kind'] == 'interrupt':
                if 'step' in fault:
                    at = fault['step']
                else:
                    # measuring pass on a pristine copy (it has to satisfy
                    # the oracles too)
                    m2 = worlds.build_model(render(world), names,
                                            default_sheet=s0,
                                            per_sheet=not loose)
                    uf2 = UserFuncs(fail_on=world.get('fail_on'))
                    ev2 = Evaluator(m2, uf2.namespace())
                    st = Stepper(**bud)
                    with st:
                        out2 = outcome_of(ev2.evaluate, target)
                    bump('sim_steps', st.steps)
                    v = judge(seq, target, out2, exp, st, 'measure')
                    if v is not None:
                        log.append([seq, 'measure', target, None, out2])
                        viol = v
                        break
                    at = max(1, int(st.steps * fault['frac']))
                st = Stepper(interrupt_at=at, **bud)
                with st:
                    out = outcome_of(ev.evaluate, target)
                fired = st.fired
                if fired == 'interrupt':
                    bump('fault:interrupt')
                    bump('faults_fired')
                    sig_faults.append('int')
                    if st.where and st.where[0] == 'ast_nodes.py':
                        bump('probe:interrupt_inside_ast_eval')
                else:
                    bump('fault_not_fired:interrupt')
            else:
                import time as _time
                cpu0 = _time.process_time()
                nested_box = []
                if op.get('nested') and op['nested'] in g.nodes:
                    ntarget = op['nested']
                    nexp = expectation(g, ntarget, cells, False)
                    nbud = budgets(nexp)
                    if nexp['allow'] == ['value']:
                        nbud['max_steps'] = max(nbud['max_steps'],
                                                SAFETY_STEPS)
                    ev2 = Evaluator(model, uf.namespace())

                    def hook():
                        nst = Stepper(**nbud)
                        with nst:
                            o = outcome_of(ev2.evaluate, ntarget)
                        nested_box.append((o, nst))
                    if nexp['cyc_live'] or simple_paths(g, ntarget) < 400:
                        uf.on_pause = hook
                st = Stepper(**bud)
                with st:
                    if op.get('stack'):
                        out = outcome_of(call_deep, op['stack'],
                                         ev.evaluate, target)
                        bump('fault:low_stack')
                        bump('faults_fired')
                        sig_faults.append('stack')
                    else:
                        out = outcome_of(ev.evaluate, target)
                uf.on_pause = None
                if nested_box:
                    bump('probe:second_evaluation_in_flight')
                    nout, nst = nested_box[0]
                    log.append([seq, 'nested-eval', ntarget, None, nout,
                                nst.steps, nst.depth_seen, nst.msg_seen])
                    v = judge(seq, ntarget, nout, nexp, nst, 'nested')
                    if v is not None:
                        viol = v
                        break
            bump('sim_steps', st.steps)
            log.append([seq, 'eval', target, fired, out,
                        st.steps, st.depth_seen, st.msg_seen])
            if fault is None or fault.get('kind') != 'interrupt':
                import time as _time
                cpu = _time.process_time() - cpu0
                stats['max:cpu_ms_per_evaluate'] = max(
                    stats.get('max:cpu_ms_per_evaluate', 0), int(cpu * 1000))
                # (the traced lines themselves cost CPU - about 3.5 us
                # each under the step clock - and are already bounded by the
                # step budget; the gauge is for what the clock cannot see)
                if cpu > CPU_BOUND + 1e-5 * st.steps:
                    viol = {'tag': 'budget:cpu', 'detail': {
                        'op': seq, 'target': target, 'outcome': out,
                        'cpu_seconds': round(cpu, 1), 'steps': st.steps,
                        'reachable': exp['R'],
                        'why': f'one evaluate() burnt more than {CPU_BOUND}s '
                        '(+10 us per traced line) of CPU outside traced '
                        'Python lines'}}
                    break
            if uf.fired:
                bump('fault:transient_userfunc', uf.fired)
                bump('faults_fired', uf.fired)
                sig_faults.append('flaky')
                uf.fired = 0
            if out == ['interrupt'] or fired == 'interrupt':
                # no claim about the interrupted call itself (an interrupt
                # raised inside a callback of C code may even be swallowed
                # there and leave a wrong value behind)
                continue
            v = judge(seq, target, out, exp, st, 'eval')
            if v is not None and v['tag'] == 'budget:steps' and \
                    exp['cyc_live'] and world['class'] != 'fail_ladder' \
                    and simple_paths(g, addr) >= 400:
                # heavy sharing in front of a cycle in a random graph: the
                # re-evaluating walk through the shared acyclic part that
                # is evaluated *successfully* before the cycle is met is
                # exponential by design and not this property's business
                # (same rule as for acyclic graphs).  Ladders, where the
                # failing cell is met first, and plain failures stay judged.
                bump('expensive_walk_before_failure_not_judged')
                continue
            if v is not None:
                viol = v
                break
            kind = classify(out)
            bump(f'outcome:{kind}')
            Lb = exp['R']
            if kind != 'value':
                stats[f'max:fail_msg@R={Lb}'] = max(
                    stats.get(f'max:fail_msg@R={Lb}', 0), st.msg_seen)
                stats[f'max:fail_steps@R={Lb}'] = max(
                    stats.get(f'max:fail_steps@R={Lb}', 0), st.steps)
                stats[f'max:fail_depth@R={Lb}'] = max(
                    stats.get(f'max:fail_depth@R={Lb}', 0), st.depth_seen)
            if exp['cyc_live'] and kind == 'cycle':
                bump('probe:cycle_reported')
            if exp.get('stack_may_run_out') and kind == 'error':
                bump('probe:stack_ran_out_on_acyclic_model')
            if exp['allow'] == ['value'] and exp['R'] > 1:
                bump('probe:acyclic_shared_value_ok')
            if not flaky_armed and any(
                    g.nodes[a]['fail'] == 'flaky'
                    for a in g.reach(addr, g.live)) and kind == 'value':
                bump('probe:transient_failure_recovered')
            cover.append(f"{world['class']}|{kind}|{min(exp['R'], 20)}")

    info = world.get('info', {})
    entry = case['ops'][0]['target'] if case['ops'] else None
    constructs = sorted({t['t'] for nd in world['nodes'] for t in nd['terms']})
    nontrivial = any(nd['terms'] or nd['fail'] for nd in world['nodes'])
    sig = None
    if nontrivial:
        sig = '|'.join(map(str, [
            world['class'], len(world['nodes']), info.get('cycle_len'),
            info.get('entry_index'), ','.join(constructs),
            info.get('fail_kind'), info.get('fail_at'),
            ','.join(sig_faults), entry in world['names']]))
    return {'viol': viol, 'log': log, 'stats': stats, 'cover': cover,
            'sig': sig}


def judge(seq, target, out, exp, st, phase):
    kind = classify(out)
    det = {'op': seq, 'phase': phase, 'target': target, 'outcome': out,
           'expected_one_of': exp['allow'], 'reachable': exp['R'],
           'steps': st.steps, 'depth': st.depth_seen, 'msg': st.msg_seen}
    if kind == 'budget':
        det['why'] = (f'simulated {out[1]} budget crossed while the call was '
                      f'running ({st.fired} at {st.where}); budgets '
                      f'{budgets(exp)}')
        return {'tag': f'budget:{out[1]}', 'detail': det}
    if kind in ('interrupt', 'crash'):
        return None
    if kind not in exp['allow']:
        if kind == 'cycle':
            tag = 'false-cycle-report'
        elif 'cycle' in exp['allow'] and exp['allow'] == ['cycle']:
            tag = 'cycle-not-reported'
        elif kind == 'value':
            tag = 'failure-not-reported'
        else:
            tag = 'unexpected-failure'
        return {'tag': tag, 'detail': det}
    if kind == 'value' and exp.get('value') == 'errval':
        # an error *value* is in play: how aggregates treat it is not this
        # property's business - only that no cycle / failure is reported
        pass
    elif kind == 'value' and 'value' in exp:
        c = out[1]
        ok = False
        if c[0] == 'Number':
            try:
                num = int(c[2]) if c[1] == 'i' else float.fromhex(c[2])
                ok = (num == exp['value'])
            except (ValueError, OverflowError):
                ok = False
        if not ok:
            det['expected_value'] = exp['value']
            return {'tag': 'wrong-value', 'detail': det}
    return None


def finding_key(case, viol):
    return viol['tag']


# --------------------------------------------------------------------------
# shrinking
# --------------------------------------------------------------------------

def reducers(case):
    import copy
    w = case['world']
    used = set()
    for nd in w['nodes']:
        for t in nd['terms']:
            for k in ('to', 'live', 'dead', 'then', 'else'):
                if t.get(k):
                    used.add(t[k])
            used.update(t.get('members', ()))
    targets = {w['names'].get(op['target'], op['target'])
               for op in case['ops']}
    # drop unreferenced, untargeted nodes
    for i, nd in enumerate(w['nodes']):
        if nd['a'] not in used and nd['a'] not in targets:
            c = copy.deepcopy(case)
            del c['world']['nodes'][i]
            yield c
    # drop single terms / simplify constructs / drop failure marks
    for i, nd in enumerate(w['nodes']):
        for j, t in enumerate(nd['terms']):
            c = copy.deepcopy(case)
            del c['world']['nodes'][i]['terms'][j]
            yield c
            if t['t'] in ('rep', 'name'):
                c = copy.deepcopy(case)
                c['world']['nodes'][i]['terms'][j] = {'t': 'ref', 'to': t['to']}
                yield c
            if t['t'] == 'if' and t['live']:
                c = copy.deepcopy(case)
                c['world']['nodes'][i]['terms'][j] = {
                    't': 'ref', 'to': t['live']}
                yield c
            if t['t'] == 'range' and len(t['members']) == 1:
                c = copy.deepcopy(case)
                c['world']['nodes'][i]['terms'][j] = {
                    't': 'ref', 'to': t['members'][0]}
                yield c
        if nd['fail']:
            c = copy.deepcopy(case)
            c['world']['nodes'][i]['fail'] = None
            yield c
        if nd['k'] != 0:
            c = copy.deepcopy(case)
            c['world']['nodes'][i]['k'] = 0
            yield c
    if w.get('qualify'):
        c = copy.deepcopy(case)
        c['world']['qualify'] = False
        if len({nd['a'].split('!')[0] for nd in w['nodes']}) == 1:
            yield c
    for i, op in enumerate(case['ops']):
        f = op.get('fault')
        if f and 'frac' in f and f['frac'] > 0.05:
            c = copy.deepcopy(case)
            c['ops'][i]['fault']['frac'] = round(f['frac'] / 2, 3)
            yield c
        if op.get('target') in w['names']:
            c = copy.deepcopy(case)
            c['ops'][i]['target'] = w['names'][op['target']]
            yield c


def evidence_extra(agg):
    law = {}
    for k, v in agg['stats'].items():
        if k.startswith('max:fail_'):
            what, r = k[len('max:fail_'):].split('@R=')
            law.setdefault(int(r), {})[what] = v
    return {'observed_failure_cost_by_reachable_size':
            {str(r): law[r] for r in sorted(law)}}
