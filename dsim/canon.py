"""Canonical, total, JSON-able forms of values, outcomes and model dumps.

Oracle code never trusts what the library hands back: an unexpected object
becomes ['raw', type name, repr[:80]] so that garbage is reported as a
violation of the property being checked, not as a harness error.
"""
import datetime
import re

import numpy
import pandas

from xlcalculator import xltypes
from xlcalculator.xlfunctions import func_xltypes as ft, xlerrors

from .seams import SimInterrupt, SimBudget, SimCrash

CYCLE_RE = re.compile(r'cycl|circular', re.I)


def _raw(v):
    try:
        r = repr(v)
    except BaseException as e:      # repr itself may be broken
        r = f'<repr failed: {type(e).__name__}>'
    return ['raw', type(v).__name__, r[:80]]


def canon(v):
    """Canonical value: kind + exact native payload.  Native values and the
    ExcelType wrapping the same native are equal; int and float differ; bool
    is never a number; Text('') / None / Blank differ from each other only
    as ''/Blank."""
    try:
        if isinstance(v, xlerrors.ExcelError):
            return ['err', str(v.value)]
        if isinstance(v, pandas.DataFrame):
            return ['arr', [[canon(x) for x in row]
                            for row in v.values.tolist()]]
        if isinstance(v, ft.Blank) or v is None:
            return ['Blank']
        if isinstance(v, ft.ExcelType):
            inner = canon(v.value)
            want = type(v).__name__
            if inner[0] != want:
                return ['mistyped', want, inner]
            return inner
        if isinstance(v, (bool, numpy.bool_)):
            return ['Boolean', bool(v)]
        if isinstance(v, (int, numpy.integer)):
            return ['Number', 'i', str(int(v))]
        if isinstance(v, (float, numpy.floating)):
            f = float(v)
            return ['Number', 'f', f.hex() if f == f else 'nan']
        if isinstance(v, str):
            return ['Text', v]
        if isinstance(v, numpy.datetime64):
            return ['DateTime', str(v)]
        if isinstance(v, datetime.datetime):
            return ['DateTime', v.isoformat()]
        if isinstance(v, datetime.date):
            return ['date', v.isoformat()]
        if isinstance(v, tuple):
            return ['tuple', [canon(x) for x in v]]
        if isinstance(v, list):
            return ['list', [canon(x) for x in v]]
        return _raw(v)
    except BaseException as e:      # noqa - total by construction
        if isinstance(e, (SimInterrupt, SimBudget, SimCrash,
                          KeyboardInterrupt)):  # never swallow these
            raise
        return ['raw', type(v).__name__, f'<canon failed: {type(e).__name__}>']


def exc_texts(exc, limit=8):
    """Texts of an exception chain (message, causes, contexts, class names),
    each capped so that a pathological message cannot hurt the harness."""
    out = []
    seen = set()
    while exc is not None and id(exc) not in seen and len(out) < 4 * limit:
        seen.add(id(exc))
        out.append(type(exc).__name__)
        for a in getattr(exc, 'args', ()):
            if isinstance(a, str):
                out.append(a[:200000])
        exc = exc.__cause__ or exc.__context__
    return out


def mentions_cycle(exc):
    return any(CYCLE_RE.search(t) for t in exc_texts(exc))


def outcome_of(fn, *args, **kw):
    """Run fn and canonicalise what happened."""
    try:
        v = fn(*args, **kw)
    except SimInterrupt:
        return ['interrupt']
    except SimBudget as b:
        return ['budget', b.which]
    except SimCrash:
        return ['crash']
    except RecursionError:
        return ['exc', 'RecursionError', False]
    except MemoryError:
        return ['exc', 'MemoryError', False]
    except Exception as e:
        return ['exc', type(e).__name__, mentions_cycle(e)]
    return ['ok', canon(v)]


# --------------------------------------------------------------------------
# model dumps
# --------------------------------------------------------------------------

def _formula_text(f):
    if f is None:
        return None
    if isinstance(f, xltypes.XLFormula):
        return f.formula
    return _raw(f)


def _matrix(cells):
    if isinstance(cells, list) and all(isinstance(r, list) for r in cells):
        return [[c if isinstance(c, str) else _raw(c) for c in r]
                for r in cells]
    return _raw(cells)


def name_target(defn):
    if isinstance(defn, xltypes.XLCell):
        return ['cell', defn.address]
    if isinstance(defn, xltypes.XLRange):
        return ['range', _matrix(defn.cells)]
    if isinstance(defn, xltypes.XLFormula):
        return ['formula', defn.formula]
    return _raw(defn)


def dump_model(model, values=True):
    """Total dump: cells (value, formula text), formulae, names, ranges."""
    cells = {}
    src = getattr(model, 'cells', None)
    if isinstance(src, dict):
        for addr, cell in src.items():
            if isinstance(cell, xltypes.XLCell):
                ent = {'f': _formula_text(cell.formula),
                       'a': cell.address}
                if values:
                    ent['v'] = canon(cell.value)
                cells[str(addr)] = ent
            else:
                cells[str(addr)] = {'raw': _raw(cell)}
    else:
        cells = _raw(src)
    formulae = {}
    src = getattr(model, 'formulae', None)
    if isinstance(src, dict):
        for k, f in src.items():
            formulae[str(k)] = _formula_text(f)
    else:
        formulae = _raw(src)
    names = {}
    src = getattr(model, 'defined_names', None)
    if isinstance(src, dict):
        for k, d in src.items():
            names[str(k)] = name_target(d)
    else:
        names = _raw(src)
    ranges = {}
    src = getattr(model, 'ranges', None)
    if isinstance(src, dict):
        for k, r in src.items():
            ranges[str(k)] = _matrix(r.cells) \
                if isinstance(r, xltypes.XLRange) else _raw(r)
    else:
        ranges = _raw(src)
    return {'cells': cells, 'formulae': formulae, 'names': names,
            'ranges': ranges}


def _object_state(v):
    """Everything a constant that is an object (not a plain number, text or
    boolean) carries besides its canonical value: an evaluation that mutates
    the object held by a constant cell changes that cell."""
    try:
        if isinstance(v, (xlerrors.ExcelError, ft.ExcelType)):
            d = getattr(v, '__dict__', None) or {}
            return [type(v).__name__,
                    repr(getattr(v, 'args', None))[:200],
                    sorted((str(k), repr(x)[:200]) for k, x in d.items())]
    except BaseException as e:      # noqa
        if isinstance(e, (SimInterrupt, SimBudget, SimCrash,
                          KeyboardInterrupt)):
            raise
        return ['state failed', type(e).__name__]
    return None


def immutable_part(model):
    """What evaluation must never change: constants, formula texts, names,
    the set of cells."""
    d = dump_model(model, values=True)
    if isinstance(d['cells'], dict):
        for addr, ent in d['cells'].items():
            if ent.get('f') is not None:
                ent.pop('v', None)      # formula results are written back
            else:
                st = _object_state(model.cells[addr].value)
                if st is not None:
                    ent['state'] = st
    return {'cells': d['cells'], 'names': d['names'],
            'formulae': d['formulae']}


def diff_dumps(a, b, limit=4):
    """First few differing paths between two dumps (for reports)."""
    out = []

    def walk(x, y, path):
        if len(out) >= limit:
            return
        if isinstance(x, dict) and isinstance(y, dict):
            for k in sorted(set(x) | set(y), key=str):
                if k not in x:
                    out.append((path + [k], '<missing>', y[k]))
                elif k not in y:
                    out.append((path + [k], x[k], '<missing>'))
                else:
                    walk(x[k], y[k], path + [k])
                if len(out) >= limit:
                    return
        elif x != y:
            out.append((path, x, y))

    walk(a, b, [])
    return [{'path': '/'.join(map(str, p)), 'a': x, 'b': y}
            for p, x, y in out]
