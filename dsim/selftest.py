"""Determinism self-test: one seed = one exactly repeatable execution.

For every property, N run seeds are executed under several configurations
and the event-log digests are diffed:
  A  16 workers, small chunks
  B  1 worker, all seeds in one process in order (each seed runs after all
     the others before it)
  C  2 workers, reversed order (each seed runs after a different past)
  A' configuration A again (same process pool layout, second time)
  D  a fresh interpreter with PYTHONHASHSEED=1
Any difference is a determinism break and is reported with the seed.
"""
import json
import os
import subprocess
import sys
import time

from . import kernel

HERE = os.path.dirname(os.path.abspath(__file__))


def digests(pid, pairs, workers, chunk, tier):
    pool = kernel.make_pool(workers)
    out = {}
    try:
        futs = [pool.submit(kernel._chunk_task, pid, tier,
                            pairs[i:i + chunk], True)
                for i in range(0, len(pairs), chunk)]
        for f in futs:
            part = f.result(timeout=3000)
            if part['errors']:
                raise RuntimeError(part['errors'][0]['error'])
            out.update(part['digests'])
    finally:
        pool.shutdown(wait=False, cancel_futures=True)
    return out


def dump(pid, n, tier, base=0):
    pairs = [(i, kernel.run_seed(pid, base, i)) for i in range(n)]
    d = digests(pid, pairs, 8, 20, tier)
    print('DIGESTS ' + json.dumps({str(k): v for k, v in d.items()}))
    return 0


def determinism(props, n, tier='quick', base=0):
    bad = 0
    for pid in props:
        t0 = time.time()
        pairs = [(i, kernel.run_seed(pid, base, i)) for i in range(n)]
        a = digests(pid, pairs, 16, 10, tier)
        b = digests(pid, pairs, 1, len(pairs), tier)
        c = digests(pid, list(reversed(pairs)), 2, max(1, len(pairs) // 2),
                    tier)
        a2 = digests(pid, pairs, 16, 10, tier)
        env = dict(os.environ, PYTHONHASHSEED='1', VERIF_HASHSEED='1')
        r = subprocess.run(
            [sys.executable, '-B', os.path.join(HERE, 'cli.py'),
             'selftest-dump', pid, str(n), '--tier', tier],
            capture_output=True, text=True, env=env, timeout=3000)
        d = None
        for line in r.stdout.splitlines():
            if line.startswith('DIGESTS '):
                d = {int(k): v for k, v in json.loads(line[8:]).items()}
        if d is None:
            print(f'{pid}: fresh-interpreter run failed: {r.stdout[-300:]} '
                  f'{r.stderr[-300:]}')
            bad += 1
            continue
        diffs = []
        for name, other in (('1-worker', b), ('reversed-2-workers', c),
                            ('repeat-16-workers', a2),
                            ('fresh-interpreter-hashseed-1', d)):
            for seed, dg in a.items():
                if other.get(seed) != dg:
                    diffs.append((name, seed))
        print(f'{pid}: {len(a)} seeds x 5 configurations, '
              f'{len(diffs)} digest differences, {time.time() - t0:.0f}s')
        for name, seed in diffs[:10]:
            print(f'  DIFF {pid} config={name} run-seed={seed}')
        bad += len(diffs)
    print('determinism:', 'OK' if not bad else f'{bad} DIFFERENCES')
    return 0 if not bad else 2
