"""World construction shared by the property checks.

* JSON encoding of cell values (datetimes tagged).
* build_model: abstract cell dict (+ defined names) -> real Model through the
  library's public compile steps.
* address helpers.
"""
import datetime
import decimal

from xlcalculator import ModelCompiler
from xlcalculator.xlfunctions import xlerrors


def enc(v):
    if isinstance(v, datetime.datetime):
        return {'$dt': v.isoformat()}
    if isinstance(v, datetime.date):
        return {'$date': v.isoformat()}
    if isinstance(v, decimal.Decimal):
        return {'$dec': str(v)}
    if isinstance(v, tuple):
        return {'$tuple': list(v)}
    if isinstance(v, bytes):
        return {'$bytes': v.decode('latin1')}
    if isinstance(v, xlerrors.ExcelError):
        return {'$err': str(v.value)}
    return v


def dec(v):
    if isinstance(v, dict):
        if '$dt' in v:
            return datetime.datetime.fromisoformat(v['$dt'])
        if '$date' in v:
            return datetime.date.fromisoformat(v['$date'])
        if '$dec' in v:
            return decimal.Decimal(v['$dec'])
        if '$tuple' in v:
            return tuple(v['$tuple'])
        if '$bytes' in v:
            return v['$bytes'].encode('latin1')
        if '$err' in v:
            # an error *value* held by an input (a fresh object each time)
            return xlerrors.ERRORS_BY_CODE[v['$err']]()
    return v


ERR_CODES = ['#N/A', '#DIV/0!', '#VALUE!', '#NUM!', '#REF!', '#NAME?',
             '#NULL!']

# values the library has no Excel type for (an input may hold one for a while)
ODD_VALUES = [datetime.date(2020, 1, 2), decimal.Decimal('1.5'), (1, 2),
              b'raw']


def col_letter(i):
    """0 -> A, 25 -> Z, 26 -> AA."""
    s = ''
    i += 1
    while i:
        i, r = divmod(i - 1, 26)
        s = chr(65 + r) + s
    return s


def addr(sheet, col, row):
    return f'{sheet}!{col_letter(col)}{row + 1}'


def split(address):
    sheet, a = address.split('!')
    return sheet, a


def dollar(address):
    """Sheet1!A1 -> Sheet1!$A$1 ; Sheet1!A1:B2 -> Sheet1!$A$1:$B$2 (the way a
    workbook stores defined-name targets)."""
    sheet, a = address.split('!')
    parts = []
    for p in a.split(':'):
        i = 0
        while i < len(p) and p[i].isalpha():
            i += 1
        parts.append(f'${p[:i]}${p[i:]}')
    return f'{sheet}!' + ':'.join(parts)


def col_index(letters):
    n = 0
    for ch in letters:
        n = n * 26 + (ord(ch.upper()) - 64)
    return n - 1


def range_members(rng_addr):
    """'Sheet!A1:B2' -> row-major list of rows of addresses (own
    implementation, independent of the library's resolve_ranges)."""
    sheet, a = rng_addr.rsplit('!', 1)
    a = a.replace('$', '')          # (a '$' may be part of the sheet name)
    p1, _, p2 = a.partition(':')
    p2 = p2 or p1

    def rc(p):
        i = 0
        while i < len(p) and p[i].isalpha():
            i += 1
        return col_index(p[:i]), int(p[i:]) - 1
    (c1, r1), (c2, r2) = rc(p1), rc(p2)
    return [[addr(sheet, c, r) for c in range(min(c1, c2), max(c1, c2) + 1)]
            for r in range(min(r1, r2), max(r1, r2) + 1)]


def dict_readable(v):
    """What ModelCompiler.read_and_parse_dict accepts as a constant."""
    if isinstance(v, (bool, int, float)):
        return True
    return isinstance(v, str) and v != ''


def build_model(cells, names=None, default_sheet='Sheet1', build_code=True,
                per_sheet=True):
    """cells: {address: python value | '=formula'}; names: {name: target with
    or without $}.  The model is compiled sheet by sheet with the dict reader
    (so that unqualified references mean "this sheet" on every sheet).
    Constants the dict reader cannot take (None, '', datetime) are installed
    with set_cell_value after compilation - all through public API."""
    mc = ModelCompiler()
    split_sheets = per_sheet
    per_sheet = {}
    late = {}
    for a, v in cells.items():
        d = per_sheet.setdefault(a.split('!')[0], {})
        if dict_readable(v):
            d[a] = v
        else:
            d[a] = 0
            late[a] = v
    if not per_sheet:
        per_sheet[default_sheet] = {}
    order = sorted(per_sheet, key=lambda s: (s != default_sheet,))
    if not split_sheets:
        # everything in one read_and_parse_dict call (every formula is then
        # tokenised as if it lived on the default sheet)
        allc = {}
        for sheet in order:
            allc.update(per_sheet[sheet])
        model = mc.read_and_parse_dict(
            allc, default_sheet=default_sheet, build_code=False)
        order = []
    for k, sheet in enumerate(order):
        model = mc.read_and_parse_dict(
            per_sheet[sheet], default_sheet=sheet,
            build_code=(build_code == 'partial' and k == 0))
    if names:
        mc.defined_names = dict(names)
        mc.build_defined_names()
        mc.link_cells_to_defined_names()
    for a, v in late.items():
        model.set_cell_value(a, v)
    if build_code is True:
        model.build_code()
    return model


# --------------------------------------------------------------------------
# acyclic model generator (C04, C05, C12, C13)
# --------------------------------------------------------------------------

SHEETS = ['Sheet1', 'S2', 'Data']

NUMS = [0, 1, 2, 3, 7, -4, 10, 100, 0.5, 2.25, -1.5, 1e-7, 12345.678, 800,
        2.5, 0.125, -4.5,
        0.30000000000000004, 1 / 3, 1.0, 2.0]
EXTREME = [1e308, -0.0, 5e-324, 2 ** 70, -1e308, 2 ** 53 + 1, float('inf'),
           float('-inf'), float('nan')]
TEXTS = ['abc', 'Hello', 'x', 'héllo wörld', '12', '3.5', 'TRUE',
         'a"b', "it's", '日本', 'long ' * 70, '0', '1e3', ' 7 ', 'False', 'ABC', 'Abc', 'HELLO', '#N/A', '#DIV/0!', '#VALUE!',
         'line1\nline2', '\U0001F600 wide', 'A1', 'Sheet1!A1', 'tab\there']
DATES = [datetime.datetime(2020, 3, 15), datetime.datetime(1999, 12, 31, 12),
         datetime.datetime(1900, 3, 1),
         datetime.datetime(2021, 5, 17, 13, 45, 12, 345678),
         datetime.datetime(2038, 1, 19, 3, 14, 7, 1),
         datetime.datetime(1900, 1, 15), datetime.datetime(1899, 12, 31, 6)]

# templates: {a} {b} {c} single-cell operands, {R} a range, {n} a defined name
T_SCALAR = [
    '{a}+{b}', '{a}-{b}', '{a}*{b}', '{a}/{b}', '{a}^2', '-{a}', '{a}*50%',
    '{a}&{b}', '{a}={b}', '{a}<{b}', '{a}>={b}', '{a}<>{b}', '{a}+{a}',
    '({a}+{b})*{c}', '{a}+{b}*{c}', '{a}-{b}-{c}',
    'IF({a}>{b},{a},{b})', 'IF({a},{b},{c})', 'AND({a},{b})', 'OR({a},{b})',
    'NOT({a})', 'ROUND({a},1)', 'LEN({a})', 'LEFT({a},2)', 'ABS({a})',
    'MOD({a},3)', 'INT({a})', 'SQRT({a})', 'UPPER({a})', 'MID({a},1,2)',
    'ISBLANK({a})', 'ISNUMBER({a})', 'ISTEXT({a})', 'CHOOSE({a},{b},{c})',
    'YEAR({a})', 'DATE(2020,{a},{b})', 'CONCAT({a},{b})', 'EXACT({a},{b})',
    'TRIM({a})', 'SIGN({a})', 'POWER({a},2)', 'ISERROR({a}/{b})',
    'IF(ISERROR({a}/{b}),{c},{a}/{b})', 'MAX({a},{b})', 'MIN({a},{b},{c})',
    'SUM({a},{b},{c})', 'NOSUCHFN({a})', '1/0+{a}', '#N/A', '{a}+"x"',
    'EXP({a})', 'COSH({a})', 'DEGREES({a})', 'LN({a})', 'ROUND({a},0)',
    'ROUND({a}/{b},2)', 'EXP({a})+{b}', 'ROUNDUP({a},1)', 'TRUNC({a})',
    'FLOOR({a},1)', 'CEILING({a},1)', 'ISEVEN({a})', 'LOWER({a})',
    '{a}&" [kg]"', 'IF({a}>3,"[heavy]","light")', '{a}&"!A1"',
    'ROUND({a}-{a},2)', 'ROUND({a}/3,2)',
]
T_RANGE = [
    'SUM({R})', 'AVERAGE({R})', 'MIN({R})', 'MAX({R})', 'COUNT({R})',
    'COUNTA({R})', 'SUM({R},{a})', 'SUM({R})+{a}', 'SUM({R})*2',
    'COUNTIF({R},">1")', 'MAX({R})-MIN({R})', 'VLOOKUP({a},{R},1,FALSE)',
    'MATCH({a},{R},0)', 'SUMPRODUCT({R},{R})', 'IF(SUM({R})>{a},{a},{b})',
    'COUNT({R})+COUNTA({R})', 'AVERAGE({R})+{a}',
    'COUNTIF({R},{a})', 'COUNTIF({R},TRUE)', 'COUNTIF({R},"true")',
    'COUNTIF({R},1)', 'COUNTIF({R},"1")', 'COUNTIF({R},"<>0")',
    'COUNTIF({R},"abc")', 'COUNTIF({R},"ABC")', '{R}', '{R}',
]


def respell(rng, text):
    """Legal spelling variations that do not change the meaning: blanks
    around operators and after commas, function names in lower / mixed
    case.  (Quoted text is left alone.)"""
    import re
    if '"' in text or '#' in text:
        return text         # text literals and error literals stay as is
    k = rng.random()
    if k < 0.4:
        text = re.sub(r'([A-Za-z_]+)\(', lambda m: rng.choice(
            [m.group(1).lower(), m.group(1).title()]) + '(', text)
    elif k < 0.8:
        text = re.sub(r'(?<=[A-Za-z0-9)])([+*/&<>=]+)(?=[A-Za-z0-9(])',
                      r' \1 ', text)
        text = text.replace(',', ', ')
    else:
        text = ' ' + text
    return text


def gen_world(rng, n_inputs=None, n_formulas=None, sheets=None, names=True,
              stale=True, userfuncs=False, extremes=False, max_depth=5,
              range_names=False, absolute=None, sparse=None, spelling=None):
    """Acyclic model: level-0 constants, then formulas over lower cells.

    Returns a JSON-able world:
      sheets, cells {addr: enc(value)|'=formula'}, deps {addr: [addr]},
      level {addr: int}, names {name: addr}, stale {addr: enc(value)},
      ranges_used {addr: [range address]}, range_names {name: range}
    """
    nsheets = sheets if sheets is not None else rng.choice([1, 1, 2, 2, 3])
    if absolute is None:
        absolute = rng.random() < 0.12
    if sparse is None:
        sparse = rng.random() < 0.15
    if spelling is None:
        spelling = rng.random() < 0.15
    sheet_list = SHEETS[:nsheets]
    odd = set()
    if nsheets == 3 and rng.random() < 0.3:
        # a sheet whose name contains a character that means something
        # elsewhere in an address; it is only referred to from itself
        sheet_list = sheet_list[:2] + [rng.choice(['US$', 'Net$Cost'])]
        odd = {sheet_list[2]}
    W = {s: rng.choice([1, 2, 2, 3, 4]) for s in sheet_list}
    count = {s: 0 for s in sheet_list}
    cells, deps, level, order = {}, {}, {}, []
    where = {}                      # addr -> (sheet, local index)
    qualify_all = nsheets > 1 and rng.random() < 0.3

    reserved = set()                # blank positions inside ranges

    def place(sheet):
        while True:
            i = count[sheet]
            count[sheet] += 1
            a = addr(sheet, i % W[sheet], i // W[sheet])
            if a not in reserved:
                break
        where[a] = (sheet, i)
        order.append(a)
        return a

    def const():
        r = rng.random()
        if r < 0.50:
            return rng.choice(NUMS)
        if r < 0.56 and (extremes or rng.random() < 0.15):
            return rng.choice(EXTREME)
        if r < 0.72:
            return rng.choice(TEXTS)
        if r < 0.80:
            return rng.choice([True, False])
        if r < 0.85:
            return ''
        if r < 0.90:
            return None
        if r < 0.95:
            return rng.choice(DATES)
        if r < 0.965:
            return {'$err': rng.choice(ERR_CODES)}
        return rng.randint(-1000, 1000)

    ni = n_inputs if n_inputs is not None else rng.randint(2, 6)
    nf = n_formulas if n_formulas is not None else rng.randint(1, 8)
    if n_inputs is None and n_formulas is None and rng.random() < 0.04:
        # now and then a larger model (size-triggered behaviour)
        ni, nf = rng.randint(10, 40), rng.randint(10, 45)
    elif n_inputs is None and n_formulas is None and rng.random() < 0.03:
        # ... or a minimal one
        ni, nf = 1, rng.choice([0, 1])
    for _ in range(ni):
        a = place(rng.choice(sheet_list))
        cells[a] = enc(const())
        level[a] = 0
        deps[a] = []

    name_pool = ['rate', 'total_x', 'nm_a', 'Input1', 'k_2', 'tax', '_base',
                 '_w']
    rng.shuffle(name_pool)
    wnames = {}
    if names and rng.random() < 0.6:
        for _ in range(rng.randint(1, 3)):
            wnames[name_pool.pop()] = rng.choice(
                [a for a in order if a.split('!')[0] not in odd] or order)

    def ref(frm_sheet, a):
        s, c = a.split('!')
        if absolute and rng.random() < 0.3:
            # $A$1 spelling of a single-cell reference
            i = 0
            while c[i].isalpha():
                i += 1
            c = rng.choice([f'${c[:i]}${c[i:]}', f'{c[:i]}${c[i:]}',
                            f'${c[:i]}{c[i:]}'])
            a = f'{s}!{c}'
        if s == frm_sheet and not qualify_all and rng.random() < 0.85:
            return c
        return a

    copyable = []       # formulas whose text is sheet-relative throughout
    soft = {}           # formula -> cells referenced with $ only

    ranges_used = {}

    def try_copy():
        """Same formula text on another sheet (sheet-relative references):
        what copying a block between sheets produces."""
        src = rng.choice(copyable)
        others = [s for s in sheet_list if s != src['sheet']]
        if not others:
            return False
        sheet = rng.choice(others)
        fa_i = count[sheet]
        while addr(sheet, fa_i % W[sheet], fa_i // W[sheet]) in reserved:
            fa_i += 1
        fa = addr(sheet, fa_i % W[sheet], fa_i // W[sheet])
        targets = [f'{sheet}!{c}' for c in src['coords']]
        if fa in targets:
            return False
        if any(t in level and level[t] >= max_depth for t in targets):
            return False
        got = place(sheet)
        if got != fa:
            return False
        reserved.update(t for t in targets if t not in cells)
        cells[fa] = src['text']
        deps[fa] = list(dict.fromkeys(targets))
        level[fa] = 1 + max([level.get(t, 0) for t in targets] or [0])
        if src['range']:
            ranges_used[fa] = [f'{sheet}!{src["range"]}']
        return True

    made = 0
    guard = 0
    while made < nf and guard < nf * 4:
        guard += 1
        if copyable and rng.random() < 0.22 and try_copy():
            made += 1
            continue
        sheet = rng.choice(sheet_list)
        cands = [a for a in order if level[a] < max_depth
                 and (a.split('!')[0] not in odd
                      or a.split('!')[0] == sheet)]
        if not cands:
            cands = [a for a in order if a.split('!')[0] not in odd] or order
        # bias to recent cells so that chains get deep
        def pick():
            if rng.random() < 0.55:
                return rng.choice(cands[-4:])
            return rng.choice(cands)
        a_, b_, c_ = pick(), pick(), pick()
        if rng.random() < 0.08:
            # reference to a cell that is stored nowhere (reads as blank)
            c_ = f'{rng.choice([x for x in sheet_list if x not in odd])}!Z9'
            if rng.random() < 0.5:
                a_, c_ = c_, a_
        used = []
        use_range = rng.random() < 0.4
        rng_ref = None
        if use_range:
            # rectangle on some sheet covering existing cells (sometimes one
            # position beyond -> blank placeholder created by build_ranges)
            s = sheet if rng.random() < 0.6 else rng.choice(sheet_list)
            if s in odd and s != sheet:
                s = sheet
            if count[s] > 0:
                w = W[s]
                rows = (count[s] + w - 1) // w
                r1 = rng.randrange(rows)
                r2 = min(rows - 1 + (1 if rng.random() < 0.15 else 0),
                         r1 + rng.randint(0, 3))
                c1 = rng.randrange(w)
                c2 = rng.randint(c1, w - 1)
                members = []
                for r in range(r1, r2 + 1):
                    for c in range(c1, c2 + 1):
                        m = addr(s, c, r)
                        members.append(m)
                if all(m not in level or level[m] < max_depth
                       for m in members):
                    a1 = addr(s, c1, r1).split('!')[1]
                    a2 = addr(s, c2, r2).split('!')[1]
                    rr = f'{a1}:{a2}'
                    if not (s == sheet and not qualify_all
                            and rng.random() < 0.85):
                        rr = f'{s}!{rr}'
                    rng_ref = (rr, members, f'{s}!{a1}:{a2}')
                    reserved.update(m for m in members if m not in cells)
        tpl = rng.choice(T_RANGE if rng_ref else T_SCALAR)
        if userfuncs and rng.random() < 0.15:
            tpl = 'FLAKY(' + tpl + ')'
        elif userfuncs and rng.random() < 0.05:
            tpl = 'SPY(' + tpl + ')'
        elif userfuncs and rng.random() < 0.07:
            tpl = '(' + tpl + ')&WHO()'
        fa = place(sheet)
        sub = {}
        relative = True
        coords = []
        for key, val in (('a', a_), ('b', b_), ('c', c_)):
            if '{' + key + '}' in tpl:
                nm = [n for n, t in wnames.items() if t == val]
                if nm and rng.random() < 0.5:
                    sub[key] = nm[0]
                    relative = False
                    if rng.random() < 0.1:
                        # another capitalisation: not the defined name as
                        # far as the library is concerned (reads as blank)
                        v = rng.choice([nm[0].upper(), nm[0].title()])
                        if v != nm[0] and v not in wnames:
                            sub[key] = v
                            soft.setdefault('pending', []).append(val)
                            continue
                else:
                    sub[key] = ref(sheet, val)
                    if '!' in sub[key] or '$' in sub[key]:
                        relative = False
                    else:
                        coords.append(sub[key])
                if '$' in sub[key].split('!')[-1]:
                    # the library does not resolve $A$1 to A1 (it reads as
                    # blank), so this is not a dependency in its semantics;
                    # kept apart so that acyclicity still holds if it did
                    soft.setdefault('pending', []).append(val)
                else:
                    used.append(val)
        if rng_ref:
            sub['R'] = rng_ref[0]
            used.extend(rng_ref[1])
            ranges_used[fa] = [rng_ref[2]]
            if '!' in rng_ref[0]:
                relative = False
            else:
                coords.extend(m.split('!')[1] for m in rng_ref[1])
        text = tpl.format(**sub)
        if spelling and rng.random() < 0.5:
            text = respell(rng, text)
        cells[fa] = '=' + text
        dl = [u for u in dict.fromkeys(used)]
        deps[fa] = dl
        sd = soft.pop('pending', [])
        if sd:
            soft[fa] = sd
        level[fa] = 1 + max([level.get(u, 0) for u in dl + sd] or [0])
        if relative and coords:
            copyable.append({'sheet': sheet, 'text': cells[fa],
                             'coords': coords,
                             'range': rng_ref[0] if rng_ref else None})
        if names and name_pool and rng.random() < 0.12 \
                and sheet not in odd:
            wnames[name_pool.pop()] = fa
        made += 1

    if sparse:
        # a long, mostly empty column with a formula over all of it: the
        # MAX_EMPTY cut-off and blank placeholders come into play
        s = rng.choice([x for x in sheet_list if x not in odd])
        L = rng.randint(6, 16)
        filled = sorted(rng.sample(range(L), rng.randint(1, 3)))
        members = [f'{s}!H{r + 1}' for r in range(L)]
        for r in filled:
            a = members[r]
            cells[a] = rng.choice([1, 2, 5, 10, 0.5, 7])
            level[a] = 0
            deps[a] = []
            order.append(a)
        reserved.update(m for m in members if m not in cells)
        sheet = rng.choice([x for x in sheet_list if x not in odd])
        fa = place(sheet)
        rr = f'H1:H{L}' if sheet == s and not qualify_all else f'{s}!H1:H{L}'
        cells[fa] = '=' + rng.choice(
            ['SUM({R})', 'COUNT({R})', 'MAX({R})', 'SUM({R})*2',
             'COUNTA({R})', 'AVERAGE({R})']).format(R=rr)
        deps[fa] = list(members)
        level[fa] = 1
        ranges_used[fa] = [f'{s}!H1:H{L}']

    if sparse and rng.random() < 0.5:
        # ... and a wide, mostly empty row that runs from column X past Z
        s = rng.choice([x for x in sheet_list if x not in odd])
        cols = ['X', 'Y', 'Z', 'AA', 'AB', 'AC']
        members = [f'{s}!{c}9' for c in cols]
        for c in rng.sample(cols, rng.randint(2, 4)):
            a = f'{s}!{c}9'
            cells[a] = rng.choice([1, 2, 5, 10, 0, False, 0.5])
            level[a] = 0
            deps[a] = []
            order.append(a)
        reserved.update(m for m in members if m not in cells)
        sheet = rng.choice([x for x in sheet_list if x not in odd])
        fa = place(sheet)
        rr = 'X9:AC9' if sheet == s and not qualify_all else f'{s}!X9:AC9'
        cells[fa] = '=' + rng.choice(
            ['SUM({R})', 'COUNT({R})', 'MAX({R})', 'COUNTA({R})',
             'AVERAGE({R})']).format(R=rr)
        deps[fa] = list(members)
        level[fa] = 1
        ranges_used[fa] = [f'{s}!X9:AC9']

    wstale = {}
    if stale and rng.random() < 0.5:
        for a in order:
            if level[a] > 0 and rng.random() < 0.5:
                wstale[a] = enc(rng.choice(
                    [999, -1, 'stale', 0, True, 3.25, None]))
    rnames = {}
    if range_names and rng.random() < 0.5:
        s = rng.choice([x for x in sheet_list if x not in odd])
        if count[s] >= 2:
            w = W[s]
            rows = (count[s] + w - 1) // w
            r1 = rng.randrange(rows)
            r2 = min(rows - 1, r1 + rng.randint(0, 2))
            c1 = rng.randrange(w)
            c2 = rng.randint(c1, w - 1)
            a1 = addr(s, c1, r1).split('!')[1]
            a2 = addr(s, c2, r2).split('!')[1]
            members = [addr(s, c, r) for r in range(r1, r2 + 1)
                       for c in range(c1, c2 + 1)]
            if a1 != a2 and all(m in cells for m in members):
                rn = 'rng_' + rng.choice('abc')
                rnames[rn] = f'{s}!{a1}:{a2}'
                if rng.random() < 0.5 and all(
                        level.get(m, 0) < max_depth for m in members):
                    # a formula that uses the range name (the library reads
                    # it as blank today: a soft dependency)
                    fa = place(rng.choice(sheet_list))
                    if fa not in members:
                        cells[fa] = '=' + rng.choice(
                            ['SUM({n})', 'COUNT({n})+1', 'MAX({n})',
                             'SUM({n})*2']).format(n=rn)
                        deps[fa] = []
                        soft[fa] = list(members)
                        level[fa] = 1 + max(level.get(m, 0) for m in members)
    return {'sheets': sheet_list, 'cells': cells, 'deps': deps,
            'level': level, 'names': wnames, 'stale': wstale,
            'ranges_used': ranges_used, 'range_names': rnames,
            'order': order, 'soft_deps': {k: v for k, v in soft.items()
                                         if k != 'pending'}}


def world_from_workbook(wb, knobs=None):
    """World description of a generated workbook (dsim.xlsx): the model is
    obtained by *loading the .xlsx* from the simulated disk, so whatever the
    reader / compiler path does differently from the dict path is in play.
    Formulas may be cyclic or refer to anything; deps are derived from the
    generator's own reference tokens."""
    from . import xlsx
    cells, deps, level, order = {}, {}, {}, []
    names, rnames = {}, {}
    stored_all = {f'{sh["name"]}!{c}' for sh in wb['sheets']
                  for c in sh['cells']}
    for sh in wb['sheets']:
        for coord, spec in sh['cells'].items():
            a = f'{sh["name"]}!{coord}'
            order.append(a)
            if spec['form'] == 'f':
                s_ = spec.get('shared')
                dc, dr = (s_['dc'], s_['dr']) if s_ else (0, 0)
                cells[a] = '=' + xlsx.render_formula(spec['parts'], dc, dr)
                ds = []
                for p in spec['parts']:
                    if isinstance(p, dict):
                        if 'c2' not in p and (p.get('ac1') or p.get('ar1')):
                            # $A$1-style single references are not resolved
                            # by the library (soft dependency)
                            continue
                        ds.extend(xlsx.ref_members(p, sh['name'], dc, dr))
                    elif p in wb['names'] and ':' not in wb['names'][p]['ref']:
                        t = wb['names'][p]
                        if f'{t["sheet"]}!{t["ref"]}' in stored_all:
                            # (a name whose target is stored nowhere is not
                            # bound by the library)
                            ds.append(f'{t["sheet"]}!{t["ref"]}')
                deps[a] = list(dict.fromkeys(ds))
                level[a] = 1
            else:
                cells[a] = spec['value']
                deps[a] = []
                level[a] = 0
    stored = set(order)
    for n, t in wb['names'].items():
        target = f'{t["sheet"]}!{t["ref"]}'
        if ':' in t['ref']:
            rnames[n] = target
        elif target in stored:
            names[n] = target
    return {'sheets': [sh['name'] for sh in wb['sheets']], 'cells': cells,
            'deps': deps, 'level': level, 'names': names, 'stale': {},
            'ranges_used': {}, 'range_names': rnames, 'order': order,
            'soft_deps': {}, 'xlsx': wb, 'xlsx_knobs': knobs or {}}


def world_model(world, cells=None, stale=False, build_code=True):
    """Real Model for a world (optionally with other current cell contents)."""
    if world.get('xlsx') is not None:
        from . import xlsx
        from .seams import _Installed
        fs = _Installed.fs
        path = '/simfs/world.xlsx'
        fs.put(path, xlsx.render_xlsx(world['xlsx'], world.get('xlsx_knobs')))
        model = ModelCompiler().read_and_parse_archive(
            path, build_code=build_code)
        fs.reset_op()
        if cells is not None:
            for a, v in cells.items():
                if world['level'].get(a, 0) == 0 and v != world['cells'].get(a):
                    model.set_cell_value(a, dec(v))
        return model
    src = cells if cells is not None else world['cells']
    py = {a: dec(v) for a, v in src.items()}
    names = {n: dollar(a) for n, a in world['names'].items()}
    names.update({n: dollar(a)
                  for n, a in world.get('range_names', {}).items()})
    model = build_model(py, names, build_code=build_code)
    if stale:
        for a, v in world.get('stale', {}).items():
            if a in model.cells:
                model.set_cell_value(a, dec(v))
    return model


# constant formulas that stress or observe process-wide numeric state
# (floating-point error handling, decimal contexts, overflow paths)
STRESSORS = ['=EXP(800)', '=1/0', '=SQRT(-1)', '=LN(0)', '=POWER(10,400)',
             '=10^400', '=FACT(200)', '=COSH(800)*0', '=EXP(710)-EXP(710)',
             '=MOD(5,0)', '=LOG10(-1)', '=ASIN(2)', '=1E308*10', '=ROUND(1E308,2)',
             '=LEN(FACT(2000))', '=ROUND(1E308*10-1E308*10,2)',
             '=VDB(2400,300,10,5,6,2,TRUE)']
OBSERVERS = ['=COSH(800)', '=DEGREES(1E308)', '=ROUND(2.5,0)', '=ROUND(0.125,2)',
             '=ROUND(-4.5,0)', '=1E308*10', '=EXP(709)', '=10/3', '=SQRT(2)',
             '=ROUNDUP(2.341,2)', '=ROUNDDOWN(-2.349,2)', '=2^0.5', '=EXP(1)',
             '=1/3+1/3', '=SINH(750)', '=1E-320/10', '=FLOOR(2.5,1)',
             '=TRUNC(1E15+0.5)', '=ROUND(1.005,2)',
             '=VDB(2400,300,10,5,6,2,FALSE)', '=VDB(2400,300,10,5,6,2)',
             '=ROUND(1E308*10-1E308*10,1)', '=M1+0', '=LEN(M1)']


ENV_PAIRS = [
    ('=LEN(FACT(2000))', '=M1+0'), ('=ROUND(FACT(2000),0)', '=LEN(M1)'),
    ('=VDB(2400,300,10,5,6,2,TRUE)', '=VDB(2400,300,10,5,6,2,FALSE)'),
    ('=VDB(2400,300,10,5,6,2,FALSE)', '=VDB(2400,300,10,5,6,2,TRUE)'),
    ('=EXP(800)', '=COSH(800)'), ('=1E308*10', '=DEGREES(1E308)'),
    ('=ROUND(1E308*10-1E308*10,2)', '=ROUND(2.5,0)'),
    ('=SQRT(-1)', '=SQRT(2)'), ('=10^400', '=2^0.5'),
]


def add_env_cells(rng, world):
    """A few constant formulas on a sheet of their own: some that drive
    numeric code into its overflow / error paths, some whose value would
    change if that left anything behind."""
    if rng.random() < 0.5:
        return
    # a number written with more digits than the interpreter converts by
    # default (observers '=M1+0', '=LEN(M1)')
    world['cells']['Env!M1'] = '9' * 4400
    world['deps']['Env!M1'] = []
    world['level']['Env!M1'] = 0
    world['order'].append('Env!M1')
    k = 1
    for pool, n in ((STRESSORS, rng.randint(1, 2)),
                    (OBSERVERS, rng.randint(2, 3))):
        for f in rng.sample(pool, n):
            a = f'Env!A{k}'
            k += 1
            world['cells'][a] = f
            world['deps'][a] = []
            world['level'][a] = 1
            world['order'].append(a)
    if rng.random() < 0.3:
        # a pair that belongs together: the first drives some process-wide
        # switch or cache, the second shows it
        for f in rng.choice(ENV_PAIRS):
            if f in world['cells'].values():
                continue
            a = f'Env!A{k}'
            k += 1
            world['cells'][a] = f
            world['deps'][a] = ['Env!M1'] if 'M1' in f else []
            world['level'][a] = 1
            world['order'].append(a)
    if rng.random() < 0.3:
        # a column mixing booleans, texts that look like booleans and
        # numbers, counted with criteria that differ only in type
        for r, v in enumerate([True, 'TRUE', 1, 'true', False, '1']):
            a = f'Env!H{r + 1}'
            world['cells'][a] = v
            world['deps'][a] = []
            world['level'][a] = 0
            world['order'].append(a)
        for f in rng.sample(['=COUNTIF(H1:H6,TRUE)', '=COUNTIF(H1:H6,"true")',
                             '=COUNTIF(H1:H6,1)', '=COUNTIF(H1:H6,"1")',
                             '=COUNTIF(H1:H6,FALSE)',
                             '=COUNTIF(H1:H6,"FALSE")'], rng.randint(2, 4)):
            a = f'Env!A{k}'
            k += 1
            world['cells'][a] = f
            world['deps'][a] = [f'Env!H{r + 1}' for r in range(6)]
            world['level'][a] = 1
            world['order'].append(a)
    if rng.random() < 0.35:
        # cash-flow tables with iterative solvers on top (module-level state
        # in a numeric routine would make their results order dependent)
        import datetime as _dt
        flows = [[-100, 30, 40, 50], [-100, 230, -132, 5],
                 [-1000, 300, 400, 500]]
        fml = []
        for t, fl in enumerate(rng.sample(flows, 2)):
            vcol, dcol = ('C', 'D') if t == 0 else ('F', 'G')
            for r, v in enumerate(fl):
                for col_, val in ((vcol, v), (dcol, enc(
                        _dt.datetime(2020 + r // 2, 1 + 6 * (r % 2), 1)))):
                    a = f'Env!{col_}{r + 1}'
                    world['cells'][a] = val
                    world['deps'][a] = []
                    world['level'][a] = 0
                    world['order'].append(a)
            n = len(fl)
            fml += [f'=XIRR({vcol}1:{vcol}{n},{dcol}1:{dcol}{n})',
                    f'=IRR({vcol}1:{vcol}{n})',
                    f'=XNPV(0.1,{vcol}1:{vcol}{n},{dcol}1:{dcol}{n})']
        for f in rng.sample(fml, rng.randint(2, 4)):
            a = f'Env!A{k}'
            k += 1
            world['cells'][a] = f
            world['deps'][a] = []
            world['level'][a] = 1
            world['order'].append(a)
    if 'Env' not in world['sheets']:
        world['sheets'] = list(world['sheets']) + ['Env']



def sibling_world(world):
    """Another workbook with the same formula texts and the same defined
    names, but the names point at other cells and the numeric constants
    differ."""
    order = world['order']
    names = {}
    for i, (n, a) in enumerate(sorted(world['names'].items())):
        if a in order:
            names[n] = order[(order.index(a) + 1 + i) % len(order)]
        elif order:
            names[n] = order[i % len(order)]
    cells = {}
    for a, v in world['cells'].items():
        if isinstance(v, str) and v.startswith('='):
            cells[a] = v
        elif isinstance(v, bool) or not isinstance(v, (int, float)):
            cells[a] = v
        else:
            cells[a] = v + 1000
    return dict(world, names=names, cells=cells, range_names={}, stale={})


def run_decoy(world, namespace=None):
    """An earlier workbook used in the same process (see sibling_world).
    Anything the library keeps at module level keyed too coarsely (formula
    text, name set, file name ...) is poisoned by it.  Outcomes are
    ignored."""
    from xlcalculator import Evaluator
    from .seams import Stepper
    from .canon import outcome_of
    order = world['order']
    if not order:
        return
    try:
        model = world_model(sibling_world(world))
    except Exception:
        return
    ev = Evaluator(model, namespace) if namespace is not None \
        else Evaluator(model)
    for a in order:
        st = Stepper(max_steps=300_000, max_depth=900, max_msg=1_000_000)
        with st:
            outcome_of(ev.evaluate, a)
