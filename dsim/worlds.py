"""World construction shared by the property checks.

* JSON encoding of cell values (datetimes tagged).
* build_model: abstract cell dict (+ defined names) -> real Model through the
  library's public compile steps.
* address helpers.
"""
import datetime

from xlcalculator import ModelCompiler


def enc(v):
    if isinstance(v, datetime.datetime):
        return {'$dt': v.isoformat()}
    return v


def dec(v):
    if isinstance(v, dict) and '$dt' in v:
        return datetime.datetime.fromisoformat(v['$dt'])
    return v


def col_letter(i):
    """0 -> A, 25 -> Z, 26 -> AA."""
    s = ''
    i += 1
    while i:
        i, r = divmod(i - 1, 26)
        s = chr(65 + r) + s
    return s


def addr(sheet, col, row):
    return f'{sheet}!{col_letter(col)}{row + 1}'


def split(address):
    sheet, a = address.split('!')
    return sheet, a


def dollar(address):
    """Sheet1!A1 -> Sheet1!$A$1 ; Sheet1!A1:B2 -> Sheet1!$A$1:$B$2 (the way a
    workbook stores defined-name targets)."""
    sheet, a = address.split('!')
    parts = []
    for p in a.split(':'):
        i = 0
        while i < len(p) and p[i].isalpha():
            i += 1
        parts.append(f'${p[:i]}${p[i:]}')
    return f'{sheet}!' + ':'.join(parts)


def dict_readable(v):
    """What ModelCompiler.read_and_parse_dict accepts as a constant."""
    if isinstance(v, (bool, int, float)):
        return True
    return isinstance(v, str) and v != ''


def build_model(cells, names=None, default_sheet='Sheet1', build_code=True):
    """cells: {address: python value | '=formula'}; names: {name: target with
    or without $}.  Constants the dict reader cannot take (None, '',
    datetime) are installed with set_cell_value after compilation - all
    through public API."""
    mc = ModelCompiler()
    d = {}
    late = {}
    for a, v in cells.items():
        if dict_readable(v):
            d[a] = v
        else:
            d[a] = 0
            late[a] = v
    model = mc.read_and_parse_dict(
        d, default_sheet=default_sheet, build_code=False)
    if names:
        mc.defined_names = dict(names)
        mc.build_defined_names()
        mc.link_cells_to_defined_names()
    for a, v in late.items():
        model.set_cell_value(a, v)
    if build_code:
        model.build_code()
    return model
