"""dsim - deterministic simulation with fault injection for xlcalculator.

Importing this package puts the repository under test first on sys.path
(VERIF_REPO, default /repo) so that every check runs against the current
working tree.
"""
import os
import sys

REPO = os.path.realpath(os.environ.get('VERIF_REPO', '/repo'))
VERIF = os.path.dirname(os.path.dirname(os.path.abspath(__file__)))
if sys.path[0] != REPO:
    sys.path.insert(0, REPO)
