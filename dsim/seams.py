"""Seams: everything environmental the simulator owns.

* Stepper   - sys.settrace step clock / depth gauge / message gauge and
              interrupt injection, restricted to frames of xlcalculator/.
* SimFS     - in-memory raw disk below the real io.Buffered* layer, with
              read/write faults, short transfers and torn writes; installed
              over builtins.open and io.open for paths under /simfs/.
* SimClock  - discrete clock behind date.now, dateutil's datetime.now and
              gzip's time.time.
* SimUUID   - seeded uuid4 behind xlcalculator.tokenizer.uuid.
* user functions SPY / FLAKY / BOOM registered in an Evaluator namespace.
"""
import builtins
import datetime as _datetime
import errno
import io
import os
import random
import sys
import types
import uuid as _uuid

from . import REPO

XL_DIR = os.path.join(REPO, 'xlcalculator') + os.sep


class SimInterrupt(KeyboardInterrupt):
    """Cancellation injected at a traced step.  It *is* a KeyboardInterrupt
    (so `except KeyboardInterrupt` clean-up in the library runs as it would
    for the real thing) and hence not an Exception: no `except Exception`
    handler in the library may absorb or re-wrap it."""


class SimBudget(BaseException):
    """A simulated resource bound was crossed (steps / depth / message)."""

    def __init__(self, which, detail=''):
        super().__init__(which, detail)
        self.which = which
        self.detail = detail


class SimCrash(BaseException):
    """Process death in the middle of a raw write (torn file)."""


# --------------------------------------------------------------------------
# Stepper
# --------------------------------------------------------------------------

class Stepper:
    """Deterministic step clock.

    steps = number of 'line' events in frames whose code lives under
    xlcalculator/; depth = traced frames currently on the stack; message =
    largest len(str(exc)) seen on an 'exception' event in a traced frame.
    """

    def __init__(self, interrupt_at=None, max_steps=None, max_depth=None,
                 max_msg=None, prefix=XL_DIR, no_interrupt_in=(),
                 extra_files=()):
        self.interrupt_at = interrupt_at
        self.max_steps = max_steps
        self.max_depth = max_depth
        self.max_msg = max_msg
        self.prefix = prefix
        # functions whose lines are clean-up code (context-manager bodies):
        # a cancellation landing *inside* clean-up cannot be handled by any
        # Python program, so it is not a fault the library can be blamed for
        self.no_interrupt_in = frozenset(no_interrupt_in)
        # further source files whose lines count as steps (e.g. copy.py
        # while an extraction deep-copies cells)
        self.extra_files = frozenset(extra_files)
        self.steps = 0
        self.depth = 0
        self.depth_seen = 0
        self.msg_seen = 0
        self.fired = None          # 'interrupt' | 'budget:...'
        self.where = None          # (file, line, func) of the fired event
        self._prev = None

    # -- trace functions ----------------------------------------------------
    def _global(self, frame, event, arg):
        fn = frame.f_code.co_filename
        if not fn.startswith(self.prefix) and fn not in self.extra_files:
            return None
        self.depth += 1
        if self.depth > self.depth_seen:
            self.depth_seen = self.depth
        if self.max_depth is not None and self.depth > self.max_depth \
                and self.fired is None:
            self._fire('budget:depth', frame)
            raise SimBudget('depth', f'depth {self.depth} > {self.max_depth}')
        return self._local

    def _local(self, frame, event, arg):
        if event == 'line':
            if frame.f_code.co_name in self.no_interrupt_in:
                return self._local
            self.steps += 1
            if self.fired is None:
                if self.steps == self.interrupt_at:
                    self._fire('interrupt', frame)
                    raise SimInterrupt(self.steps)
                if self.max_steps is not None and self.steps > self.max_steps:
                    self._fire('budget:steps', frame)
                    raise SimBudget(
                        'steps', f'steps {self.steps} > {self.max_steps}')
        elif event == 'return':
            self.depth -= 1
        elif event == 'exception':
            exc = arg[1]
            n = 0
            try:
                for a in getattr(exc, 'args', ()):
                    if isinstance(a, (str, bytes)):
                        n = max(n, len(a))
            except Exception:       # pragma: no cover - defensive
                pass
            if n > self.msg_seen:
                self.msg_seen = n
            if self.max_msg is not None and n > self.max_msg \
                    and self.fired is None:
                self._fire('budget:message', frame)
                raise SimBudget('message', f'message {n} > {self.max_msg}')
        return self._local

    def _fire(self, what, frame):
        self.fired = what
        self.where = (os.path.basename(frame.f_code.co_filename),
                      frame.f_lineno, frame.f_code.co_name)

    def __enter__(self):
        self._prev = sys.gettrace()
        sys.settrace(self._global)
        return self

    def __exit__(self, *exc):
        sys.settrace(self._prev)
        return False


# --------------------------------------------------------------------------
# SimFS
# --------------------------------------------------------------------------

SIM_ROOT = '/simfs/'
_real_open = builtins.open
_real_io_open = io.open


class SimRaw(io.RawIOBase):

    def __init__(self, fs, path, data, readable, writable, append):
        super().__init__()
        self.fs = fs
        self.path = path
        self.data = data            # shared bytearray (the inode)
        self._r = readable
        self._w = writable
        self.pos = len(data) if append else 0
        self._append = append
        self.name = path
        self._fd = None

    def close(self):
        if not self.closed:
            super().close()
            f = self.fs.close_fault
            if f is not None and (self._w or not f.get('writers_only')):
                self.fs.close_fault = None
                self.fs.fired('close_error')
                raise OSError(f.get('errno', errno.EIO),
                              'simulated failure on close', self.path)

    def readable(self):
        return self._r

    def writable(self):
        return self._w

    def seekable(self):
        return True

    def fileno(self):
        # a descriptor number nothing else uses (fsync / fstat on it are
        # answered by the simulated disk)
        if self._fd is None:
            self._fd = self.fs.FD_BASE + 500_000 + len(self.fs.open_fds)
            self.fs.open_fds[self._fd] = self
        return self._fd

    def isatty(self):
        return False

    def tell(self):
        return self.pos

    def seek(self, off, whence=0):
        if whence == 0:
            pos = off
        elif whence == 1:
            pos = self.pos + off
        elif whence == 2:
            pos = len(self.data) + off
        else:
            raise ValueError('whence')
        if pos < 0:
            raise OSError(errno.EINVAL, 'negative seek')
        self.pos = pos
        return pos

    def truncate(self, size=None):
        if size is None:
            size = self.pos
        del self.data[size:]
        return size

    def readinto(self, b):
        if not self._r:
            raise io.UnsupportedOperation('read')
        fs = self.fs
        fs.raw_reads += 1
        f = fs.read_fault
        if f is not None and f['kind'] == 'eio' and fs.raw_reads == f['at']:
            fs.fired('read_eio')
            raise OSError(f.get('errno', errno.EIO),
                          'simulated I/O error (read)', self.path)
        n = min(len(b), max(0, len(self.data) - self.pos))
        if n > 1 and fs.short_rng is not None:
            m = fs.short_rng.randint(1, n)
            if m < n:
                fs.fired('short_read')
                n = m
        b[:n] = self.data[self.pos:self.pos + n]
        self.pos += n
        fs.bytes_read += n
        return n

    def write(self, b):
        if not self._w:
            raise io.UnsupportedOperation('write')
        fs = self.fs
        fs.raw_writes += 1
        b = bytes(b)
        n = len(b)
        f = fs.write_fault
        if f is not None:
            k = f['kind']
            if k == 'eio' and fs.raw_writes == f['at'] and f.get('partial') \
                    and n > 1 and f.get('errno') != errno.EINTR:
                # (EINTR means "nothing was transferred": a write that moved
                # data reports a short count instead, and the buffered layer
                # retries EINTR by design)
                # part of the data reaches the disk, then the error (once)
                half = n // 2
                end = self.pos + half
                if self.pos > len(self.data):
                    self.data.extend(b'\0' * (self.pos - len(self.data)))
                self.data[self.pos:end] = b[:half]
                self.pos = end
                fs.bytes_written += half
                fs.fired('write_eio')
                fs.fired('partial_write_then_error')
                raise OSError(f.get('errno', errno.EIO),
                              'simulated I/O error (write)', self.path)
            if k == 'eio' and fs.raw_writes == f['at']:
                fs.fired('write_eio')
                raise OSError(
                    f.get('errno', errno.EIO),
                    'simulated I/O error (write)', self.path)
            if k in ('enospc', 'torn'):
                room = f['after_bytes'] - fs.bytes_written
                if room < n:
                    if room > 0:
                        # legal partial transfer first; the error (or the
                        # crash) comes with the next raw write
                        n = room
                    elif k == 'enospc':
                        fs.fired('write_enospc')
                        raise OSError(
                            errno.ENOSPC, 'simulated disk full', self.path)
                    else:
                        fs.fired('torn_write')
                        raise SimCrash(self.path)
        if n > 1 and fs.short_rng is not None:
            m = fs.short_rng.randint(1, n)
            if m < n:
                fs.fired('short_write')
                n = m
        if self._append:
            self.pos = len(self.data)
        end = self.pos + n
        if self.pos > len(self.data):
            self.data.extend(b'\0' * (self.pos - len(self.data)))
        self.data[self.pos:end] = b[:n]
        self.pos = end
        fs.bytes_written += n
        if fs.clock is not None:
            fs.mtimes[self.path] = fs.clock.t
        return n


class SimFS:
    """In-memory inode table; only the bytes survive a simulated restart."""

    def __init__(self):
        self.files = {}
        self.bufsize = 8192
        self.handles = []
        self.fds = {}
        self.open_fds = {}
        self.clock = None       # SimClock: file times come from it
        self.mtimes = {}
        self.leaked_closed = 0
        self.reset_op()
        self.fault_counts = {}

    def reset_op(self, bufsize=None, read_fault=None, write_fault=None,
                 short_seed=None, open_fault=None, close_fault=None):
        """Arm the faults for the next operation and zero its counters."""
        self.close_leaked()
        if bufsize is not None:
            self.bufsize = bufsize
        self.read_fault = read_fault
        self.write_fault = write_fault
        self.open_fault = open_fault
        self.close_fault = close_fault
        self.opens = 0
        self.short_rng = random.Random(short_seed) \
            if short_seed is not None else None
        self.raw_reads = 0
        self.raw_writes = 0
        self.bytes_read = 0
        self.bytes_written = 0
        self.op_fired = []

    def close_leaked(self):
        """Handles the library left open (e.g. GzipFile.__init__ raising
        after the file was opened) are finalised at the operation boundary -
        a deterministic stand-in for prompt reference-count finalisation; a
        garbage-collector-timed late flush would not be replayable."""
        handles, self.handles = self.handles, []
        for h in handles:
            try:
                if not h.closed:
                    self.leaked_closed += 1
                    h.close()
            except BaseException:       # noqa - flush may fail again
                pass

    def fired(self, kind):
        self.fault_counts[kind] = self.fault_counts.get(kind, 0) + 1
        if kind not in self.op_fired:
            self.op_fired.append(kind)

    # -- descriptor level (os.open / os.fdopen / open(fd)) ------------------
    FD_BASE = 1_000_000

    def os_open(self, path, flags, mode=0o777):
        self._open_fault(path)
        exists = path in self.files
        if flags & os.O_CREAT:
            if exists and flags & os.O_EXCL:
                raise FileExistsError(errno.EEXIST, 'File exists', path)
            if not exists:
                self.files[path] = bytearray()
        elif not exists:
            raise FileNotFoundError(
                errno.ENOENT, 'No such file or directory', path)
        if flags & os.O_TRUNC and (flags & (os.O_WRONLY | os.O_RDWR)):
            del self.files[path][:]
        fd = self.FD_BASE + len(self.fds)
        while fd in self.fds:
            fd += 1
        self.fds[fd] = (path, flags)
        return fd

    def open_fd(self, fd, mode='r', buffering=-1, encoding=None, errors=None,
                newline=None, closefd=True, opener=None):
        path, flags = self.fds.pop(fd)
        acc = flags & (os.O_WRONLY | os.O_RDWR)
        readable = acc != os.O_WRONLY
        writable = acc != 0
        raw = SimRaw(self, path, self.files[path], readable, writable,
                     bool(flags & os.O_APPEND))
        return self._wrap(raw, mode, buffering, encoding, errors, newline,
                          readable, writable)

    def link(self, existing, alias):
        """A second directory entry for the same inode (hard link)."""
        self.files[alias] = self.files[existing]

    def put(self, path, data):
        self.files[path] = bytearray(data)

    def get(self, path):
        return bytes(self.files[path])

    def _open_fault(self, path):
        self.opens += 1
        f = self.open_fault
        if f is not None and self.opens == f.get('at', 1):
            self.fired('open_error')
            raise OSError(f.get('errno', errno.EMFILE),
                          'simulated failure to open', path)

    def open(self, path, mode='r', buffering=-1, encoding=None, errors=None,
             newline=None, closefd=True, opener=None):
        self._open_fault(path)
        binary = 'b' in mode
        m = mode.replace('b', '').replace('t', '')
        plus = '+' in m
        m = m.replace('+', '')
        if m not in ('r', 'w', 'a', 'x'):
            raise ValueError(f'invalid mode: {mode!r}')
        if m == 'r':
            if path not in self.files:
                raise FileNotFoundError(
                    errno.ENOENT, 'No such file or directory', path)
        elif m == 'w':
            if path in self.files:
                del self.files[path][:]
            else:
                self.files[path] = bytearray()
        elif m == 'x':
            if path in self.files:
                raise FileExistsError(errno.EEXIST, 'File exists', path)
            self.files[path] = bytearray()
        elif m == 'a':
            self.files.setdefault(path, bytearray())
        readable = m == 'r' or plus
        writable = m != 'r' or plus
        raw = SimRaw(self, path, self.files[path], readable, writable,
                     m == 'a')
        return self._wrap(raw, mode, buffering, encoding, errors, newline,
                          readable, writable)

    def _wrap(self, raw, mode, buffering, encoding, errors, newline,
              readable, writable):
        binary = 'b' in mode
        if buffering == 0:
            if not binary:
                raise ValueError("can't have unbuffered text I/O")
            self.handles.append(raw)
            return raw
        size = self.bufsize if buffering in (-1, 1) else buffering
        if readable and writable:
            buf = io.BufferedRandom(raw, size)
        elif writable:
            buf = io.BufferedWriter(raw, size)
        else:
            buf = io.BufferedReader(raw, size)
        self.handles.append(buf)
        if binary:
            return buf
        return io.TextIOWrapper(buf, encoding or 'utf-8', errors, newline)


class _Installed:
    fs = None


def _is_sim(file):
    if isinstance(file, (str, os.PathLike)):
        try:
            p = os.fspath(file)
            return p.startswith(SIM_ROOT) or p == SIM_ROOT[:-1]
        except Exception:
            return False
    return False


def _sim_open(file, *a, **k):
    fs = _Installed.fs
    if fs is not None:
        if _is_sim(file):
            return fs.open(os.fspath(file), *a, **k)
        if isinstance(file, int) and file in fs.fds:
            return fs.open_fd(file, *a, **k)
    return _real_open(file, *a, **k)


_real_os_fsync = os.fsync
_real_os_fdatasync = getattr(os, 'fdatasync', None)
_real_os_fstat = os.fstat
_real_os_chmod = os.chmod
_real_os_utime = os.utime
_real_os_lstat = os.lstat


def _is_sim_fd(fd):
    fs = _Installed.fs
    return fs is not None and isinstance(fd, int) and (
        fd in fs.open_fds or fd in fs.fds)


def _sim_os_fsync(fd):
    if _is_sim_fd(fd):
        return None
    return _real_os_fsync(fd)


def _sim_os_fstat(fd):
    fs = _Installed.fs
    if _is_sim_fd(fd):
        raw = fs.open_fds.get(fd)
        path = raw.path if raw is not None else fs.fds[fd][0]
        return _sim_os_stat(path)
    return _real_os_fstat(fd)


def _sim_noop_for_sim_paths(real):
    def wrapper(path, *a, **k):
        if _Installed.fs is not None and _is_sim(path):
            if os.fspath(path) not in _Installed.fs.files and \
                    os.fspath(path).rstrip('/') != SIM_ROOT.rstrip('/'):
                raise FileNotFoundError(
                    errno.ENOENT, 'No such file or directory',
                    os.fspath(path))
            return None
        return real(path, *a, **k)
    return wrapper


_real_os_open = os.open
_real_os_close = os.close
_real_os_stat = os.stat
_real_os_remove = os.remove
_real_os_unlink = os.unlink
_real_os_replace = os.replace
_real_os_rename = os.rename


def _sim_os_stat(path, *a, **k):
    fs = _Installed.fs
    if fs is not None and _is_sim(path):
        p = os.fspath(path)
        if p in fs.files:
            mt = int(fs.mtimes.get(p, 0))
            return os.stat_result((0o100644, hash(p) & 0xffff, 1, 1, 0, 0,
                                   len(fs.files[p]), mt, mt, mt))
        if p.rstrip('/') == SIM_ROOT.rstrip('/'):
            return os.stat_result((0o040755, 1, 1, 2, 0, 0, 0, 0, 0, 0))
        raise FileNotFoundError(errno.ENOENT, 'No such file or directory', p)
    return _real_os_stat(path, *a, **k)


def _sim_os_remove(path, *a, **k):
    fs = _Installed.fs
    if fs is not None and _is_sim(path):
        p = os.fspath(path)
        if p not in fs.files:
            raise FileNotFoundError(
                errno.ENOENT, 'No such file or directory', p)
        del fs.files[p]
        return None
    return _real_os_remove(path, *a, **k)


def _sim_os_replace(src, dst, *a, **k):
    fs = _Installed.fs
    if fs is not None and _is_sim(src) and _is_sim(dst):
        s, d = os.fspath(src), os.fspath(dst)
        if s not in fs.files:
            raise FileNotFoundError(
                errno.ENOENT, 'No such file or directory', s)
        fs.files[d] = fs.files.pop(s)
        return None
    return _real_os_replace(src, dst, *a, **k)


def _sim_os_open(path, flags, mode=0o777, *a, **k):
    fs = _Installed.fs
    if fs is not None and _is_sim(path):
        return fs.os_open(os.fspath(path), flags, mode)
    return _real_os_open(path, flags, mode, *a, **k)


def _sim_os_close(fd):
    fs = _Installed.fs
    if fs is not None and fd in fs.fds:
        del fs.fds[fd]
        return None
    return _real_os_close(fd)


def install_fs(fs):
    """Route open()/io.open() of /simfs/ paths to `fs`."""
    _Installed.fs = fs
    builtins.open = _sim_open
    io.open = _sim_open
    os.open = _sim_os_open
    os.close = _sim_os_close
    os.stat = _sim_os_stat
    os.lstat = _sim_os_stat
    os.fsync = _sim_os_fsync
    if _real_os_fdatasync is not None:
        os.fdatasync = _sim_os_fsync
    os.fstat = _sim_os_fstat
    os.chmod = _sim_noop_for_sim_paths(_real_os_chmod)
    os.utime = _sim_noop_for_sim_paths(_real_os_utime)
    os.remove = os.unlink = _sim_os_remove
    os.replace = os.rename = _sim_os_replace


def uninstall_fs():
    _Installed.fs = None
    builtins.open = _real_open
    io.open = _real_io_open
    os.open = _real_os_open
    os.close = _real_os_close
    os.stat = _real_os_stat
    os.lstat = _real_os_lstat
    os.fsync = _real_os_fsync
    if _real_os_fdatasync is not None:
        os.fdatasync = _real_os_fdatasync
    os.fstat = _real_os_fstat
    os.chmod = _real_os_chmod
    os.utime = _real_os_utime
    os.remove = _real_os_remove
    os.unlink = _real_os_unlink
    os.replace = _real_os_replace
    os.rename = _real_os_rename


def fs_installed_cleanly():
    """True when no SimFS patch is active."""
    return builtins.open is _real_open and io.open is _real_io_open


# --------------------------------------------------------------------------
# clock, uuid
# --------------------------------------------------------------------------

class SimClock:
    """Discrete clock; advanced only by the scheduler.  Every read is
    counted (a non-volatile model must never read it)."""

    def __init__(self, start=1_700_000_000.0):
        self.t = float(start)
        self.reads = 0
        self.advanced = 0.0       # simulated seconds covered (|jumps| summed)

    def jump(self, delta):
        self.t += delta
        self.advanced += abs(delta)

    def time(self):
        self.reads += 1
        return self.t


def _make_datetime_module(clock):
    class _dt(_datetime.datetime):
        @classmethod
        def now(cls, tz=None):
            clock.reads += 1
            base = _datetime.datetime(1970, 1, 1) + _datetime.timedelta(
                seconds=clock.t)
            return cls(base.year, base.month, base.day, base.hour,
                       base.minute, base.second, base.microsecond)

        @classmethod
        def today(cls):
            return cls.now()

    mod = types.ModuleType('datetime')
    mod.__dict__.update(_datetime.__dict__)
    mod.datetime = _dt
    return mod


class SimUUID:
    def __init__(self, seed):
        self.rng = random.Random(seed)
        self.calls = 0

    def uuid4(self):
        self.calls += 1
        return _uuid.UUID(int=self.rng.getrandbits(128), version=4)

    def __getattr__(self, name):
        return getattr(_uuid, name)


class Ambient:
    """Pins every hidden ambient input for the duration of a run."""

    def __init__(self, seed, clock=None):
        self.clock = clock or SimClock()
        self.uuid = SimUUID(seed ^ 0x5EED)
        self.rand = random.Random(seed ^ 0xABCDEF)
        self.rand_calls = 0
        self._saved = []

    def _set(self, obj, name, value):
        self._saved.append((obj, name, getattr(obj, name)))
        setattr(obj, name, value)

    def __enter__(self):
        import gzip
        from xlcalculator import tokenizer, ast_nodes
        from xlcalculator.xlfunctions import date as xdate, math as xmath
        import dateutil.parser._parser as dparser
        clock = self.clock

        def now():
            clock.reads += 1
            return _datetime.datetime(1970, 1, 1) + _datetime.timedelta(
                seconds=clock.t)

        def rand():
            self.rand_calls += 1
            return self.rand.random()

        tmod = types.SimpleNamespace(time=clock.time)
        self._set(tokenizer, 'uuid', self.uuid)
        self._set(xdate, 'now', now)
        self._set(xmath, 'rand', rand)
        self._set(gzip, 'time', tmod)
        self._set(dparser, 'datetime', _make_datetime_module(clock))
        self._set(ast_nodes, 'MAX_EMPTY', ast_nodes.MAX_EMPTY)
        return self

    def __exit__(self, *exc):
        for obj, name, value in reversed(self._saved):
            setattr(obj, name, value)
        self._saved = []
        return False


# --------------------------------------------------------------------------
# user functions (the Evaluator namespace is the seam)
# --------------------------------------------------------------------------

class UserFuncs:
    """SPY(x) returns x and counts; FLAKY(x) raises on its `fail_on`-th call
    (transient failure, F2); BOOM() always raises a Python error (F3)."""

    def __init__(self, fail_on=None, fail_exc='oserr'):
        self.fail_on = fail_on
        self.fail_exc = fail_exc
        self.flaky_calls = 0
        self.spy_calls = 0
        self.fired = 0
        self.on_pause = None
        self.paused = 0

    EXC = {'boom': ZeroDivisionError, 'oserr': FileNotFoundError,
           'keyerr': KeyError, 'valerr': ValueError, 'rterr': RuntimeError,
           'timeout': TimeoutError}

    def namespace(self, tag=0):
        from xlcalculator.xlfunctions import xl
        ns = xl.FUNCTIONS.copy()
        uf = self

        def WHO():
            # differs between namespaces: whichever evaluator is asked must
            # use *its own* function table
            return tag

        def make_raiser(exc):
            def RAISER(*args):
                raise exc('simulated persistent failure')
            return RAISER

        def PAUSE(x):
            # the evaluation is suspended here while the scheduler lets
            # another caller run (re-entrancy / a second evaluation in
            # flight over the same model)
            hook, uf.on_pause = uf.on_pause, None
            if hook is not None:
                uf.paused += 1
                hook()
            return x

        ns['PAUSE'] = PAUSE
        ns['WHO'] = WHO
        for kind, exc in self.EXC.items():
            ns['FAIL_' + kind.upper()] = make_raiser(exc)

        def SPY(x):
            uf.spy_calls += 1
            return x

        def FLAKY(x):
            uf.flaky_calls += 1
            if uf.fail_on is not None and uf.flaky_calls == uf.fail_on:
                uf.fired += 1
                if uf.fail_exc == 'keyerr':
                    raise KeyError('simulated transient failure')
                if uf.fail_exc == 'valerr':
                    raise ValueError('simulated transient failure')
                if uf.fail_exc == 'notimpl':
                    raise NotImplementedError('simulated transient failure')
                raise OSError(errno.EAGAIN, 'simulated transient failure')
            return x

        def BOOM(*args):
            return 1 // 0

        ns['SPY'] = SPY
        ns['FLAKY'] = FLAKY
        ns['BOOM'] = BOOM
        return ns
