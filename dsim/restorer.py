"""Pristine-process server (F7: crash-restart, "a process that never saw ...").

A long-lived *template* process imports the library and the harness but never
builds a model.  Every request is served by a fork of that template which
exits afterwards, so each answer comes from an interpreter state that has
seen nothing but the request: no writer objects, no earlier workbook, no
module-level cache filled by an earlier case.

Protocol: one JSON object per line on stdin / stdout.
  {kind: 'restore',   path, data(b64), build_code, bufsize, short_seed, seed}
      -> {ok, dump, values}
  {kind: 'load_xlsx', path, data(b64), ignore, seed}
      -> {ok, dump, values}
  {kind: 'twin_eval', world, cells, targets, tag, max_empty, seed}
      -> {ok, outcomes}
"""
import base64
import json
import os
import subprocess
import sys


def handle(req):
    from dsim import seams, worlds
    from dsim.canon import dump_model, outcome_of
    from dsim.props import c12
    kind = req.get('kind', 'restore')
    clock = seams.SimClock(req['clock']) if req.get('clock') else None
    with seams.Ambient(req.get('seed', 0), clock):
        if kind == 'twin_eval':
            from xlcalculator import Evaluator, ast_nodes
            ast_nodes.MAX_EMPTY = req.get('max_empty', 100)
            model = worlds.world_model(req['world'], cells=req['cells'],
                                       stale=req.get('stale', False))
            kind = req.get('evaluator_kind', 'uf')
            uf = seams.UserFuncs(None)
            if kind == 'uf':
                ev = Evaluator(model, uf.namespace(tag=req.get('tag', 0)))
            else:
                ev = Evaluator(model)
                if kind == 'spy':
                    ev.namespace['SPY'] = uf.namespace()['SPY']
            return {'ok': True, 'outcomes': {
                t: outcome_of(ev.evaluate, t) for t in req['targets']}}
        fs = seams.SimFS()
        fs.put(req['path'], base64.b64decode(req['data']))
        seams.install_fs(fs)
        try:
            fs.reset_op(bufsize=req.get('bufsize'),
                        short_seed=req.get('short_seed'))
            if kind == 'load_xlsx':
                from xlcalculator import ModelCompiler
                model = ModelCompiler().read_and_parse_archive(
                    req['path'], ignore_sheets=list(req.get('ignore', [])))
                return {'ok': True, 'dump': dump_model(model),
                        'values': c12.evaluate_all(model)}
            return c12.restore_and_observe(
                req['path'], req.get('build_code', True))
        finally:
            seams.uninstall_fs()


def serve():
    sys.path.insert(0, os.path.dirname(os.path.dirname(
        os.path.abspath(__file__))))
    import warnings
    warnings.filterwarnings('ignore')
    import logging
    logging.disable(logging.CRITICAL)
    # import everything a request can need, build nothing
    from dsim import seams, canon, worlds  # noqa
    from dsim.props import c12              # noqa
    import xlcalculator                     # noqa
    import openpyxl                         # noqa
    out_fd = os.dup(1)
    os.dup2(2, 1)                 # nothing else may write to the pipe
    for line in sys.stdin:
        pid = os.fork()
        if pid == 0:
            try:
                try:
                    import ctypes
                    import signal
                    ctypes.CDLL(None).prctl(1, signal.SIGKILL)
                except Exception:
                    pass
                try:
                    resp = handle(json.loads(line))
                except BaseException as e:      # noqa
                    resp = {'ok': False, 'exc': type(e).__name__,
                            'msg': str(e)[:300]}
                os.write(out_fd, (json.dumps(resp, sort_keys=True,
                                             default=str) + '\n').encode())
            finally:
                os._exit(0)
        os.waitpid(pid, 0)


class Child:
    """Handle kept per worker process."""

    _inst = None

    def __init__(self):
        env = dict(os.environ)
        # hash order is an ambient input the simulator pins (the library's
        # VLOOKUP/MATCH depend on it: Number(0) == Blank but their hashes
        # differ), so the child gets the parent's value unless told otherwise
        env['PYTHONHASHSEED'] = env.get(
            'VERIF_CHILD_HASHSEED', env.get('PYTHONHASHSEED', '0'))
        env['PYTHONDONTWRITEBYTECODE'] = '1'
        self.proc = subprocess.Popen(
            [sys.executable, '-B'] + (['-O'] if sys.flags.optimize else [])
            + [os.path.abspath(__file__), 'serve'],
            stdin=subprocess.PIPE, stdout=subprocess.PIPE,
            stderr=subprocess.DEVNULL, env=env, text=True, bufsize=1)

    @classmethod
    def get(cls):
        # a server started by the worker is inherited by (and shared with)
        # the case processes it forks; they run one at a time
        if cls._inst is None or (cls._inst.pid == os.getpid()
                                 and cls._inst.proc.poll() is not None):
            cls._inst = cls()
            cls._inst.pid = os.getpid()
        return cls._inst

    def request(self, req):
        self.proc.stdin.write(json.dumps(req, default=str) + '\n')
        self.proc.stdin.flush()
        line = self.proc.stdout.readline()
        if not line:
            raise RuntimeError('pristine-process server died')
        return json.loads(line)

    def restore(self, path, data, build_code, bufsize=None, short_seed=None,
                seed=0):
        return self.request({
            'kind': 'restore', 'path': path,
            'data': base64.b64encode(data).decode(),
            'build_code': build_code, 'bufsize': bufsize,
            'short_seed': short_seed, 'seed': seed})

    def load_xlsx(self, path, data, ignore, seed=0):
        return self.request({
            'kind': 'load_xlsx', 'path': path,
            'data': base64.b64encode(data).decode(),
            'ignore': list(ignore), 'seed': seed})

    def twin_eval(self, world, cells, targets, tag=0, max_empty=100, seed=0,
                  stale=False, evaluator_kind='uf', clock=None):
        return self.request({
            'kind': 'twin_eval', 'world': world, 'cells': cells,
            'targets': list(targets), 'tag': tag, 'max_empty': max_empty,
            'seed': seed, 'stale': stale, 'evaluator_kind': evaluator_kind,
            'clock': clock})

    @classmethod
    def shutdown(cls):
        if cls._inst is not None and cls._inst.pid == os.getpid():
            try:
                cls._inst.proc.stdin.close()
                cls._inst.proc.wait(timeout=5)
            except Exception:
                cls._inst.proc.kill()
            cls._inst = None


if __name__ == '__main__':
    if len(sys.argv) > 1 and sys.argv[1] == 'serve':
        serve()
