"""Fresh-interpreter child for crash-restart restores (F7).

A long-lived child process that never saw the writer's objects: it receives
only the bytes that survived on the simulated disk, installs them in its own
SimFS, restores the model from the path with the real library, and answers
with the canonical dump and the outcome of evaluating every cell.

Protocol: one JSON object per line on stdin / stdout.
  request  {path, data(b64), build_code, bufsize, short_seed, seed}
  response {ok, dump, values} | {ok: false, exc}
"""
import base64
import json
import os
import subprocess
import sys


def serve():
    sys.path.insert(0, os.path.dirname(os.path.dirname(
        os.path.abspath(__file__))))
    import warnings
    warnings.filterwarnings('ignore')
    import logging
    logging.disable(logging.CRITICAL)
    from dsim import seams, canon
    from dsim.props import c12
    out = sys.stdout
    sys.stdout = sys.stderr       # nothing else may write to the pipe
    for line in sys.stdin:
        req = json.loads(line)
        try:
            fs = seams.SimFS()
            fs.put(req['path'], base64.b64decode(req['data']))
            seams.install_fs(fs)
            try:
                with seams.Ambient(req.get('seed', 0)):
                    fs.reset_op(bufsize=req.get('bufsize'),
                                short_seed=req.get('short_seed'))
                    resp = c12.restore_and_observe(
                        req['path'], req.get('build_code', True))
            finally:
                seams.uninstall_fs()
        except BaseException as e:      # noqa
            resp = {'ok': False, 'exc': type(e).__name__,
                    'msg': str(e)[:300]}
        out.write(json.dumps(resp, sort_keys=True) + '\n')
        out.flush()


class Child:
    """Handle kept per worker process."""

    _inst = None

    def __init__(self):
        env = dict(os.environ)
        # hash order is an ambient input the simulator pins (the library's
        # VLOOKUP/MATCH depend on it: Number(0) == Blank but their hashes
        # differ), so the child gets the parent's value unless told otherwise
        env['PYTHONHASHSEED'] = env.get(
            'VERIF_CHILD_HASHSEED', env.get('PYTHONHASHSEED', '0'))
        env['PYTHONDONTWRITEBYTECODE'] = '1'
        self.proc = subprocess.Popen(
            [sys.executable, '-B', os.path.abspath(__file__), 'serve'],
            stdin=subprocess.PIPE, stdout=subprocess.PIPE,
            stderr=subprocess.DEVNULL, env=env, text=True, bufsize=1)

    @classmethod
    def get(cls):
        if cls._inst is None or cls._inst.proc.poll() is not None \
                or cls._inst.pid != os.getpid():
            cls._inst = cls()
            cls._inst.pid = os.getpid()
        return cls._inst

    def restore(self, path, data, build_code, bufsize=None, short_seed=None,
                seed=0):
        req = {'path': path, 'data': base64.b64encode(data).decode(),
               'build_code': build_code, 'bufsize': bufsize,
               'short_seed': short_seed, 'seed': seed}
        self.proc.stdin.write(json.dumps(req) + '\n')
        self.proc.stdin.flush()
        line = self.proc.stdout.readline()
        if not line:
            raise RuntimeError('restorer child died')
        return json.loads(line)

    @classmethod
    def shutdown(cls):
        if cls._inst is not None and cls._inst.pid == os.getpid():
            try:
                cls._inst.proc.stdin.close()
                cls._inst.proc.wait(timeout=5)
            except Exception:
                cls._inst.proc.kill()
            cls._inst = None


if __name__ == '__main__':
    if len(sys.argv) > 1 and sys.argv[1] == 'serve':
        serve()
