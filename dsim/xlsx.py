"""Abstract workbooks -> SpreadsheetML bytes, and what a faithful load of them
must look like.

The generator's own description is the oracle: every stored cell in every
storage form (n, s, str, inlineStr, b, e, date-styled number, formula with /
without / with wrong cached <v>, shared-formula master and members, array
formula, style-only empty cell), defined names, sheet names that need quotes.
The writer is deliberately independent of openpyxl (plain strings + zipfile).
"""
import copy
import datetime
import io
import random
import zipfile
from xml.sax.saxutils import escape, quoteattr

from . import worlds
from .worlds import col_letter

SHEET_NAMES = ['Sheet1', 'Data', 'My Sheet', "It's", 'Q&A', '2020', 'Übung',
               'S2', 'a.b', 'Sheet 3', 'US$', 'Net$Cost', 'Data 2020', 'Sheet11',
               'My Sheet 2', 'S']
TEXTS = ['abc', 'Hello World', 'x', 'héllo wörld', '12', '3.5', 'TRUE',
         'a"b', "it's", '日本', 'a&b<c>', ' padded ', 'line1 line2', 'UPPER',
         '#N/A text', '=A1+1', '=SUM(A1:B2)', '=not a formula', '+1', '-x']
ERRORS = ['#N/A', '#DIV/0!', '#VALUE!', '#REF!', '#NAME?', '#NUM!', '#NULL!']
EPOCH = datetime.datetime(1899, 12, 30)


def needs_quotes(sheet):
    if not sheet:
        return True
    if sheet[0].isdigit():
        return True
    return not all(ch.isalnum() and ch.isascii() or ch == '_'
                   for ch in sheet)


def sheet_ref(sheet):
    if needs_quotes(sheet):
        return "'" + sheet.replace("'", "''") + "'"
    return sheet


# --------------------------------------------------------------------------
# formulas as token lists so that shared members can be rendered by us
# --------------------------------------------------------------------------

def ref_text(r, dc=0, dr=0):
    def one(c, row, ac, ar):
        c2 = c if ac else c + dc
        r2 = row if ar else row + dr
        return f"{'$' if ac else ''}{col_letter(c2)}{'$' if ar else ''}{r2 + 1}"
    s = one(r['c1'], r['r1'], r.get('ac1'), r.get('ar1'))
    if 'c2' in r:
        s += ':' + one(r['c2'], r['r2'], r.get('ac2'), r.get('ar2'))
    if r.get('sheet'):
        s = sheet_ref(r['sheet']) + '!' + s
    return s


def render_formula(parts, dc=0, dr=0):
    return ''.join(p if isinstance(p, str) else ref_text(p, dc, dr)
                   for p in parts)


def ref_members(r, own_sheet, dc=0, dr=0):
    """Addresses (unquoted sheet names, the way cell keys are built) a ref
    token denotes at offset (dc, dr)."""
    sheet = r.get('sheet') or own_sheet
    c1 = r['c1'] if r.get('ac1') else r['c1'] + dc
    r1 = r['r1'] if r.get('ar1') else r['r1'] + dr
    if 'c2' in r:
        c2 = r['c2'] if r.get('ac2') else r['c2'] + dc
        r2 = r['r2'] if r.get('ar2') else r['r2'] + dr
    else:
        c2, r2 = c1, r1
    return [f'{sheet}!{col_letter(c)}{rr + 1}'
            for rr in range(min(r1, r2), max(r1, r2) + 1)
            for c in range(min(c1, c2), max(c1, c2) + 1)]


# --------------------------------------------------------------------------
# generation of abstract workbooks
# --------------------------------------------------------------------------

EPOCH_1904 = datetime.datetime(1904, 1, 1)


def serial_to_datetime(serial, date1904=False):
    if date1904:
        return EPOCH_1904 + datetime.timedelta(days=serial)
    return EPOCH + datetime.timedelta(days=serial)


def gen_const(rng):
    """(form, value as written, expected python value)."""
    r = rng.random()
    if r < 0.30:
        v = rng.choice([0, 1, 2, 3, 7, -4, 10, 100, 42, 65536, -1])
        return {'form': 'n', 'text': str(v), 'value': v}
    if r < 0.45:
        v = rng.choice([0.5, 2.25, -1.5, 1e-7, 12345.678, 1e308, 3.0, -0.0])
        return {'form': 'n', 'text': repr(v), 'value': v}
    if r < 0.60:
        return {'form': 's', 'value': rng.choice(TEXTS)}
    if r < 0.66:
        return {'form': 'str', 'value': rng.choice(TEXTS)}
    if r < 0.74:
        return {'form': 'inlineStr', 'value': rng.choice(TEXTS)}
    if r < 0.82:
        v = rng.random() < 0.5
        return {'form': 'b', 'value': v}
    if r < 0.87:
        return {'form': 'e', 'value': rng.choice(ERRORS)}
    if r < 0.95:
        serial = rng.choice([43831, 36525, 44000.5, 40000.25, 61, 45000.75])
        return {'form': 'd', 'text': repr(serial), 'serial': serial,
                'value': worlds.enc(serial_to_datetime(serial))}
    return {'form': 'empty', 'value': None}


def gen_cached(rng):
    r = rng.random()
    if r < 0.2:
        return None
    if r < 0.55:
        v = rng.choice([3, 4.5, 0, -2, 1e10, 0.1])
        return {'form': 'n', 'text': repr(v) if isinstance(v, float)
                else str(v), 'value': v}
    if r < 0.75:
        return {'form': 'str', 'value': rng.choice(TEXTS)}
    if r < 0.87:
        return {'form': 'b', 'value': rng.random() < 0.5}
    return {'form': 'e', 'value': rng.choice(ERRORS)}


def gen_workbook(rng, max_sheets=4):
    ns = rng.choice([1, 1, 2, 2, 3, 4][:max_sheets + 2])
    ns = min(ns, max_sheets)
    names = rng.sample(SHEET_NAMES, ns)
    if rng.random() < 0.5 and 'Sheet1' not in names:
        names[0] = 'Sheet1'
    sheets = []
    W, H = 4, 6
    for sname in names:
        cells = {}
        n = rng.randint(1, 10)
        coords = rng.sample([(c, r) for c in range(W) for r in range(H)], n)
        for c, r in coords:
            cells[f'{col_letter(c)}{r + 1}'] = gen_const(rng)
        sheets.append({'name': sname, 'cells': cells})

    def any_ref(own, rangey=False):
        sh = rng.choice(sheets)
        sheet = None if sh['name'] == own and rng.random() < 0.8 \
            else sh['name']
        c1, r1 = rng.randrange(W), rng.randrange(H)
        ref = {'sheet': sheet, 'c1': c1, 'r1': r1,
               'ac1': rng.random() < 0.25, 'ar1': rng.random() < 0.25}
        if rangey:
            ref.update({'c2': min(W - 1, c1 + rng.randint(0, 2)),
                        'r2': min(H - 1, r1 + rng.randint(0, 2)),
                        'ac2': ref['ac1'], 'ar2': ref['ar1']})
        return ref

    def gen_parts(own):
        k = rng.random()
        if k < 0.35:
            return [any_ref(own), rng.choice(['+', '-', '*', '&']),
                    any_ref(own)]
        if k < 0.55:
            return [rng.choice(['SUM(', 'MAX(', 'COUNT(', 'COUNTA(',
                                'AVERAGE(']), any_ref(own, True), ')']
        if k < 0.70:
            return ['IF(', any_ref(own), '>1,', any_ref(own), ',"no")']
        if k < 0.80:
            return [any_ref(own), '+', str(rng.randint(1, 9))]
        if k < 0.88:
            return ['SUM(', any_ref(own, True), ')+', any_ref(own), '*2']
        if k < 0.94:
            return [str(rng.randint(1, 9)), '*', str(rng.randint(1, 9))]
        return ['"' + rng.choice(['a', 'b c', 'x']) + '"&', any_ref(own)]

    # plain formulas
    for sh in sheets:
        for _ in range(rng.randint(0, 5)):
            c, r = rng.randrange(W), rng.randrange(H)
            coord = f'{col_letter(c)}{r + 1}'
            spec = {'form': 'f', 'parts': gen_parts(sh['name']),
                    'cached': gen_cached(rng)}
            if rng.random() < 0.06:
                spec['array'] = True
            if rng.random() < 0.06:
                serial = rng.choice([43831, 36525, 44000.5])
                spec['cached'] = {'form': 'n', 'text': repr(serial),
                                  'value': serial}
                spec['date_style'] = True
            sh['cells'][coord] = spec
    # the same sheet-relative formula text on several sheets (what copying
    # a block between sheets produces)
    if len(sheets) > 1 and rng.random() < 0.45:
        for _ in range(rng.randint(1, 2)):
            parts = gen_parts(sheets[0]['name'])
            for p in parts:
                if isinstance(p, dict):
                    p['sheet'] = None
            c, r = rng.randrange(W), rng.randrange(H)
            for sh in rng.sample(sheets, rng.randint(2, len(sheets))):
                cc, rr = (c, r) if rng.random() < 0.6 else (
                    rng.randrange(W), rng.randrange(H))
                sh['cells'][f'{col_letter(cc)}{rr + 1}'] = {
                    'form': 'f', 'parts': copy.deepcopy(parts),
                    'cached': gen_cached(rng)}
    # shared formula blocks (placed to the right so they never collide)
    for sh in sheets:
        si = 0          # shared-formula indices are per sheet
        for _ in range(rng.choice([0, 0, 1, 1, 2])):
            w = rng.choice([1, 1, 2, 3])
            h = rng.choice([1, 2, 3]) if w > 1 or rng.random() < .7 else 1
            if w == 1 and h == 1:
                h = 2
            c0 = W + 1 + si * 4
            r0 = rng.randrange(0, 3)
            parts = gen_parts(sh['name'])
            for dr in range(h):
                for dc in range(w):
                    coord = f'{col_letter(c0 + dc)}{r0 + dr + 1}'
                    spec = {'form': 'f', 'parts': parts,
                            'cached': gen_cached(rng),
                            'shared': {'si': si, 'dc': dc, 'dr': dr,
                                       'master': dc == 0 and dr == 0,
                                       'ref': f'{col_letter(c0)}{r0 + 1}:'
                                              f'{col_letter(c0 + w - 1)}'
                                              f'{r0 + h}'}}
                    sh['cells'][coord] = spec
            si += 1
    # defined names
    dn = {}
    pool = ['rate', 'total_x', 'nm_a', 'Input1', 'k_2', 'tax', 'rng_a',
            'rng_b', '_base', '_x1', 'Täx', 'a.b']
    rng.shuffle(pool)
    for _ in range(rng.choice([0, 1, 1, 2, 3])):
        sh = rng.choice(sheets)
        if rng.random() < 0.55:
            stored = sorted(sh['cells'])
            if rng.random() < 0.85 and stored:
                coord = rng.choice(stored)
            else:
                coord = f'{col_letter(rng.randrange(W))}{rng.randrange(H) + 1}'
            dn[pool.pop()] = {'sheet': sh['name'], 'ref': coord}
        else:
            c1, r1 = rng.randrange(W), rng.randrange(H)
            c2 = min(W - 1, c1 + rng.randint(0, 2))
            r2 = min(H - 1, r1 + rng.randint(0, 2))
            if (c1, r1) == (c2, r2):
                r2 += 1
            dn[pool.pop()] = {'sheet': sh['name'],
                              'ref': f'{col_letter(c1)}{r1 + 1}:'
                                     f'{col_letter(c2)}{r2 + 1}'}
    # a few formulas use a range name
    range_names_ = [n for n, t in dn.items() if ':' in t['ref']]
    for sh in sheets:
        if range_names_ and rng.random() < 0.4:
            c, r = rng.randrange(W), rng.randrange(H)
            sh['cells'][f'{col_letter(c)}{r + 1}'] = {
                'form': 'f', 'parts': [rng.choice(
                    ['SUM(', 'COUNT(', 'MAX(']) + rng.choice(range_names_)
                    + ')' + rng.choice(['', '+1', '*2'])],
                'cached': gen_cached(rng)}
    # a few formulas use a cell name
    cell_names = [n for n, t in dn.items() if ':' not in t['ref']]
    for sh in sheets:
        if cell_names and rng.random() < 0.4:
            c, r = rng.randrange(W), rng.randrange(H)
            sh['cells'][f'{col_letter(c)}{r + 1}'] = {
                'form': 'f', 'parts': [rng.choice(cell_names), '+1'],
                'cached': gen_cached(rng)}
    # aliases: a second name for the same target
    if dn and rng.random() < 0.3 and pool:
        dn[pool.pop()] = dict(rng.choice(list(dn.values())))
    # sheet-scoped names (localSheetId): not part of the workbook-level
    # names the model binds; one may shadow a global name
    local = []
    if rng.random() < 0.25:
        for _ in range(rng.randint(1, 2)):
            sh_i = rng.randrange(len(sheets))
            tgt = rng.choice(sheets)
            nm = rng.choice(list(dn)) if dn and rng.random() < 0.6 \
                else rng.choice(['loc_a', 'loc_b', 'rate'])
            local.append({'name': nm, 'scope': sh_i, 'sheet': tgt['name'],
                          'ref': f'{col_letter(rng.randrange(W))}'
                                 f'{rng.randrange(H) + 1}'})
    wb = {'sheets': sheets, 'names': dn, 'local_names': local}
    if rng.random() < 0.12:
        wb['date1904'] = True
    return wb


# --------------------------------------------------------------------------
# writer
# --------------------------------------------------------------------------

XML = '<?xml version="1.0" encoding="UTF-8" standalone="yes"?>\n'
NS_MAIN = 'http://schemas.openxmlformats.org/spreadsheetml/2006/main'
NS_REL = 'http://schemas.openxmlformats.org/officeDocument/2006/relationships'
NS_PKG = 'http://schemas.openxmlformats.org/package/2006/relationships'
CT = 'http://schemas.openxmlformats.org/package/2006/content-types'


def _t(text):
    sp = ' xml:space="preserve"' if text != text.strip() or '  ' in text \
        else ''
    return f'<t{sp}>{escape(text)}</t>'


def _cell_xml(coord, spec, sst, knobs):
    form = spec['form']
    if form == 'n':
        return f'<c r="{coord}"><v>{spec["text"]}</v></c>'
    if form == 'd':
        return f'<c r="{coord}" s="1"><v>{spec["text"]}</v></c>'
    if form == 's':
        return f'<c r="{coord}" t="s"><v>{sst(spec["value"])}</v></c>'
    if form == 'str':
        return f'<c r="{coord}" t="str"><v>{escape(spec["value"])}</v></c>'
    if form == 'inlineStr':
        return (f'<c r="{coord}" t="inlineStr"><is>{_t(spec["value"])}</is>'
                f'</c>')
    if form == 'b':
        return f'<c r="{coord}" t="b"><v>{int(spec["value"])}</v></c>'
    if form == 'e':
        return f'<c r="{coord}" t="e"><v>{escape(spec["value"])}</v></c>'
    if form == 'empty':
        return f'<c r="{coord}" s="2"/>'
    # formula
    cached = spec.get('cached')
    t_attr, v = '', ''
    if cached is not None:
        cf = cached['form']
        if cf == 'n':
            v = f'<v>{cached["text"]}</v>'
        elif cf == 'str':
            t_attr, v = ' t="str"', f'<v>{escape(cached["value"])}</v>'
        elif cf == 'b':
            t_attr, v = ' t="b"', f'<v>{int(cached["value"])}</v>'
        elif cf == 'e':
            t_attr, v = ' t="e"', f'<v>{escape(cached["value"])}</v>'
    s_attr = ' s="1"' if spec.get('date_style') else ''
    sh = spec.get('shared')
    if sh is not None:
        if sh['master']:
            f = (f'<f t="shared" ref="{sh["ref"]}" si="{sh["si"]}">'
                 f'{escape(render_formula(spec["parts"]))}</f>')
        else:
            f = f'<f t="shared" si="{sh["si"]}"/>'
    elif spec.get('array'):
        f = (f'<f t="array" ref="{coord}">'
             f'{escape(render_formula(spec["parts"]))}</f>')
    else:
        f = f'<f>{escape(render_formula(spec["parts"]))}</f>'
    return f'<c r="{coord}"{s_attr}{t_attr}>{f}{v}</c>'


def _coord_key(coord):
    i = 0
    while coord[i].isalpha():
        i += 1
    return int(coord[i:]), worlds.col_index(coord[:i])


def render_xlsx(wb, knobs=None):
    """Bytes of the .xlsx; every choice comes from knobs (seeded)."""
    knobs = knobs or {}
    rng = random.Random(knobs.get('seed', 0))
    strings = []
    index = {}
    dup = knobs.get('sst_duplicates', False)

    def sst(text):
        if text in index and not (dup and rng.random() < 0.5):
            return index[text]
        strings.append(text)
        index[text] = len(strings) - 1
        return len(strings) - 1

    parts = {}
    sheets = wb['sheets']
    for i, sh in enumerate(sheets):
        rows = {}
        for coord in sorted(sh['cells'], key=_coord_key):
            rows.setdefault(_coord_key(coord)[0], []).append(
                _cell_xml(coord, sh['cells'][coord], sst, knobs))
        body = ''.join(f'<row r="{r}">{"".join(cs)}</row>'
                       for r, cs in sorted(rows.items()))
        dim = '<dimension ref="A1"/>' if knobs.get('dimension') else ''
        parts[f'xl/worksheets/sheet{i + 1}.xml'] = (
            f'{XML}<worksheet xmlns="{NS_MAIN}">{dim}<sheetData>{body}'
            f'</sheetData></worksheet>')
    wbx = (f'{XML}<workbook xmlns="{NS_MAIN}" xmlns:r="{NS_REL}">')
    if wb.get('date1904'):
        wbx += '<workbookPr date1904="1"/>'
    wbx += '<sheets>'
    for i, sh in enumerate(sheets):
        wbx += (f'<sheet name={quoteattr(sh["name"])} sheetId="{i + 1}" '
                f'r:id="rId{i + 1}"/>')
    wbx += '</sheets>'
    if wb['names'] or wb.get('local_names'):
        wbx += '<definedNames>'
        for n, t in wb['names'].items():
            wbx += (f'<definedName name="{n}">'
                    f'{escape(name_target_text(t))}</definedName>')
        for t in wb.get('local_names', []):
            if t['scope'] < len(sheets):
                wbx += (f'<definedName name="{t["name"]}" '
                        f'localSheetId="{t["scope"]}">'
                        f'{escape(name_target_text(t))}</definedName>')
        wbx += '</definedNames>'
    if wb.get('calc_pr'):
        # workbook-level calculation options (iterate, calcMode ...)
        wbx += f'<calcPr {wb["calc_pr"]}/>'
    wbx += '</workbook>'
    parts['xl/workbook.xml'] = wbx
    rels = f'{XML}<Relationships xmlns="{NS_PKG}">'
    for i in range(len(sheets)):
        rels += (f'<Relationship Id="rId{i + 1}" Type="{NS_REL}/worksheet" '
                 f'Target="worksheets/sheet{i + 1}.xml"/>')
    ov = ''.join(
        f'<Override PartName="/xl/worksheets/sheet{i + 1}.xml" ContentType='
        f'"application/vnd.openxmlformats-officedocument.spreadsheetml.'
        f'worksheet+xml"/>' for i in range(len(sheets)))
    have_sst = bool(strings) or knobs.get('always_sst', False)
    if have_sst:
        rels += (f'<Relationship Id="rId90" Type="{NS_REL}/sharedStrings" '
                 f'Target="sharedStrings.xml"/>')
        ov += ('<Override PartName="/xl/sharedStrings.xml" ContentType='
               '"application/vnd.openxmlformats-officedocument.'
               'spreadsheetml.sharedStrings+xml"/>')
        parts['xl/sharedStrings.xml'] = (
            f'{XML}<sst xmlns="{NS_MAIN}" count="{len(strings)}" '
            f'uniqueCount="{len(strings)}">' + ''.join(
                f'<si>{_t(s)}</si>' for s in strings) + '</sst>')
    rels += (f'<Relationship Id="rId91" Type="{NS_REL}/styles" '
             f'Target="styles.xml"/>')
    ov += ('<Override PartName="/xl/styles.xml" ContentType="application/'
           'vnd.openxmlformats-officedocument.spreadsheetml.styles+xml"/>')
    parts['xl/styles.xml'] = (
        f'{XML}<styleSheet xmlns="{NS_MAIN}"><fonts count="1"><font><sz val="11"/>'
        '<name val="Calibri"/></font></fonts>'
        '<fills count="1"><fill><patternFill patternType="none"/></fill>'
        '</fills><borders count="1"><border><left/><right/><top/><bottom/>'
        '<diagonal/></border></borders><cellStyleXfs count="1"><xf/></cellStyleXfs>'
        '<cellXfs count="3"><xf numFmtId="0"/>'
        '<xf numFmtId="22" applyNumberFormat="1"/>'
        '<xf numFmtId="2" applyNumberFormat="1"/></cellXfs></styleSheet>')
    rels += '</Relationships>'
    parts['xl/_rels/workbook.xml.rels'] = rels
    parts['[Content_Types].xml'] = (
        f'{XML}<Types xmlns="{CT}"><Default Extension="rels" ContentType='
        '"application/vnd.openxmlformats-package.relationships+xml"/>'
        '<Default Extension="xml" ContentType="application/xml"/>'
        '<Override PartName="/xl/workbook.xml" ContentType="application/'
        'vnd.openxmlformats-officedocument.spreadsheetml.sheet.main+xml"/>'
        f'{ov}</Types>')
    parts['_rels/.rels'] = (
        f'{XML}<Relationships xmlns="{NS_PKG}"><Relationship Id="rId1" '
        f'Type="{NS_REL}/officeDocument" Target="xl/workbook.xml"/>'
        '</Relationships>')
    if knobs.get('docprops'):
        parts['docProps/junk.xml'] = f'{XML}<junk/>'
    order = list(parts)
    if knobs.get('shuffle'):
        rng.shuffle(order)
    bio = io.BytesIO()
    comp = zipfile.ZIP_STORED if knobs.get('stored') else zipfile.ZIP_DEFLATED
    with zipfile.ZipFile(bio, 'w', comp) as z:
        for name in order:
            zi = zipfile.ZipInfo(name, date_time=(2020, 1, 1, 0, 0, 0))
            zi.compress_type = comp
            z.writestr(zi, parts[name].encode('utf-8'))
    return bio.getvalue()


def name_target_text(t):
    ref = worlds.dollar('X!' + t['ref']).split('!', 1)[1]
    return f'{sheet_ref(t["sheet"])}!{ref}'


# --------------------------------------------------------------------------
# expectations
# --------------------------------------------------------------------------

def expected_cells(wb, ignore):
    """{address: {'formula': text|None, 'value': python value}} for every
    stored cell of every non-ignored sheet."""
    out = {}
    for sh in wb['sheets']:
        if sh['name'] in ignore:
            continue
        for coord, spec in sh['cells'].items():
            a = f'{sh["name"]}!{coord}'
            if spec['form'] == 'f':
                s = spec.get('shared')
                dc, dr = (s['dc'], s['dr']) if s else (0, 0)
                cached = spec.get('cached')
                cv = None
                if cached is not None:
                    cv = cached['value']
                    if spec.get('date_style') and cached['form'] == 'n':
                        cv = worlds.enc(serial_to_datetime(
                            cv, wb.get('date1904')))
                out[a] = {'formula': '=' + render_formula(
                    spec['parts'], dc, dr), 'value': cv}
            elif spec['form'] == 'd' and wb.get('date1904'):
                out[a] = {'formula': None, 'value': worlds.enc(
                    serial_to_datetime(spec['serial'], True))}
            else:
                out[a] = {'formula': None, 'value': spec['value']}
    return out


def range_member_addresses(wb, ignore):
    """Addresses inside any range referenced by a loaded formula or named by
    a defined name (where blank placeholders may legitimately appear)."""
    out = set()
    for sh in wb['sheets']:
        if sh['name'] in ignore:
            continue
        for coord, spec in sh['cells'].items():
            if spec['form'] != 'f':
                continue
            s = spec.get('shared')
            dc, dr = (s['dc'], s['dr']) if s else (0, 0)
            for p in spec['parts']:
                if isinstance(p, dict) and 'c2' in p:
                    out.update(ref_members(p, sh['name'], dc, dr))
    for n, t in wb['names'].items():
        if ':' in t['ref']:
            for row in worlds.range_members(f'X!{t["ref"]}'):
                for a in row:
                    out.add(f'{t["sheet"]}!{a.split("!", 1)[1]}')
    return out


def direct_contents(wb, ignore):
    """Per sheet {address: ('f', '=formula') | ('c', constant)} for the model
    built directly from the same cell contents (a text constant may well
    start with '=')."""
    out = []
    for sh in wb['sheets']:
        if sh['name'] in ignore:
            continue
        d = {}
        for coord, spec in sh['cells'].items():
            a = f'{sh["name"]}!{coord}'
            if spec['form'] == 'f':
                s = spec.get('shared')
                dc, dr = (s['dc'], s['dr']) if s else (0, 0)
                d[a] = ('f', '=' + render_formula(spec['parts'], dc, dr))
            elif spec['form'] == 'd' and wb.get('date1904'):
                d[a] = ('c', serial_to_datetime(spec['serial'], True))
            else:
                d[a] = ('c', worlds.dec(spec['value']))
        out.append((sh['name'], d))
    return out
